package main

// Emitter for coq/Gen/OnT.v (vocabulary: coq/Model/OnTab.v).
//
//   on_fns : the bodies of every package-level function of the package named On or On<X> (On[T], OnObject,
//       OnActivity, OnIntransitiveActivity, OnQuestion, OnActor - the helpers that walk a list -, OnItemCollection,
//       OnIRIs, OnLink, OnCollection, ..., OnCollectionIntf, OnItem, OnPlace, ...), statement by statement and
//       expression by expression, in a small language: comparisons with nil tagged with what is compared
//       (interface / pointer / error, by the static type of the operand: go/types), ! || &&, dereference, calls of
//       package-level functions of the package under their names (a generic function with its type arguments:
//       "To[T]", "On[T]", whether written or inferred), calls through a variable of function type, function
//       literals, `a, b := f(x)`, `if [a := f(x);] cond { .. }` without else, `for _, v := range x { .. }`, continue,
//       return.  Blocks are emitted in continuation form: every statement carries the statements that follow it in
//       its block, so that the scope of a declaration is what follows it and a loop variable shadows a parameter
//       exactly as in the source.  Whatever is outside the language becomes an explicit OsUnrec / OxUnrec entry with
//       its source text and position; nothing is dropped (a statement after an unrecognised one is not reached by
//       the interpreter, which answers Err at the entry).
//
// The translation is structural; what a body means is decided on the Coq side by an interpreter, and whether it is
// the body the specification was written after by a decidable comparison there.

import (
	"fmt"
	"go/ast"
	"go/token"
	"go/types"
	"regexp"
	"sort"
	"strings"
)

var onFuncName = regexp.MustCompile(`^On([A-Z][A-Za-z0-9]*)?$`)

type onCtx struct{ t *T }

func (c *onCtx) xunrec(e ast.Node) string { return "(" + c.t.unrec("OxUnrec", e) + ")" }
func (c *onCtx) sunrec(s ast.Node) string { return "(" + c.t.unrec("OsUnrec", s) + ")" }

func (c *onCtx) typeStr(ty types.Type) string {
	return types.TypeString(types.Unalias(ty), func(p *types.Package) string {
		if p == c.t.pkg.Types {
			return ""
		}
		return p.Name()
	})
}

// what `x == nil` compares, by the static type of x
func (c *onCtx) nilClass(e ast.Expr) (string, bool) {
	ty := c.t.pkg.TypesInfo.TypeOf(e)
	if ty == nil {
		return "", false
	}
	if types.Identical(ty, types.Universe.Lookup("error").Type()) {
		return "OnErr", true
	}
	switch ty.Underlying().(type) {
	case *types.Interface:
		return "OnIface", true
	case *types.Pointer:
		return "OnPtr", true
	}
	return "", false
}

func (c *onCtx) exps(es []ast.Expr) string {
	out := "OxsNil"
	for i := len(es) - 1; i >= 0; i-- {
		out = "(OxsCons " + c.exp(es[i]) + " " + out + ")"
	}
	return out
}

func nameList(ns []string) string {
	var q []string
	for _, n := range ns {
		q = append(q, coqStr(n))
	}
	return "[" + strings.Join(q, "; ") + "]"
}

// the name a call of a package-level function is emitted under: generic instances carry their type arguments
func (c *onCtx) calleeName(fun ast.Expr) (string, bool) {
	var id *ast.Ident
	switch f := fun.(type) {
	case *ast.Ident:
		id = f
	case *ast.IndexExpr: // F[T]
		if i, ok := f.X.(*ast.Ident); ok {
			id = i
		}
	}
	if id == nil {
		return "", false
	}
	fn, ok := c.t.pkg.TypesInfo.Uses[id].(*types.Func)
	if !ok || fn.Pkg() != c.t.pkg.Types {
		return "", false
	}
	if sig, ok := fn.Type().(*types.Signature); !ok || sig.Recv() != nil {
		return "", false
	}
	name := fn.Name()
	if inst, ok := c.t.pkg.TypesInfo.Instances[id]; ok && inst.TypeArgs != nil && inst.TypeArgs.Len() > 0 {
		var as []string
		for i := 0; i < inst.TypeArgs.Len(); i++ {
			as = append(as, c.typeStr(inst.TypeArgs.At(i)))
		}
		name += "[" + strings.Join(as, ",") + "]"
	}
	return name, true
}

func (c *onCtx) exp(e ast.Expr) string {
	switch x := e.(type) {
	case *ast.ParenExpr:
		return c.exp(x.X)
	case *ast.Ident:
		if x.Name == "nil" {
			if _, isNil := c.t.pkg.TypesInfo.Uses[x].(*types.Nil); isNil {
				return "OxNil"
			}
		}
		if v, ok := c.t.pkg.TypesInfo.Uses[x].(*types.Var); ok && !v.IsField() && v.Parent() != c.t.pkg.Types.Scope() {
			return "(OxVar " + coqStr(x.Name) + ")"
		}
	case *ast.StarExpr:
		return "(OxDeref " + c.exp(x.X) + ")"
	case *ast.UnaryExpr:
		if x.Op == token.NOT {
			return "(OxNot " + c.exp(x.X) + ")"
		}
	case *ast.BinaryExpr:
		switch x.Op {
		case token.LOR:
			return "(OxOr " + c.exp(x.X) + " " + c.exp(x.Y) + ")"
		case token.LAND:
			return "(OxAnd " + c.exp(x.X) + " " + c.exp(x.Y) + ")"
		case token.EQL, token.NEQ:
			other := x.X
			if isIdent(x.X, "nil") {
				other = x.Y
			} else if !isIdent(x.Y, "nil") {
				break
			}
			cls, ok := c.nilClass(other)
			if !ok {
				break
			}
			r := "(OxIsNil " + cls + " " + c.exp(other) + ")"
			if x.Op == token.NEQ {
				return "(OxNot " + r + ")"
			}
			return r
		}
	case *ast.CallExpr:
		if x.Ellipsis != token.NoPos {
			break
		}
		if name, ok := c.calleeName(x.Fun); ok {
			return "(OxCall " + coqStr(name) + " " + c.exps(x.Args) + ")"
		}
		if id, ok := x.Fun.(*ast.Ident); ok {
			if v, isVar := c.t.pkg.TypesInfo.Uses[id].(*types.Var); isVar && v.Parent() != c.t.pkg.Types.Scope() {
				if _, isSig := v.Type().Underlying().(*types.Signature); isSig {
					return "(OxCallVar " + coqStr(id.Name) + " " + c.exps(x.Args) + ")"
				}
			}
		}
	case *ast.FuncLit:
		var ps []string
		for _, f := range x.Type.Params.List {
			if len(f.Names) == 0 {
				return c.xunrec(e)
			}
			for _, n := range f.Names {
				ps = append(ps, n.Name)
			}
		}
		if x.Type.Results == nil || len(x.Type.Results.List) != 1 || len(x.Type.Results.List[0].Names) != 0 ||
			c.t.src(x.Type.Results.List[0].Type) != "error" {
			break
		}
		return "(OxFunc " + nameList(ps) + " " + c.block(x.Body.List) + ")"
	}
	return c.xunrec(e)
}

// names on the left of :=
func defNames(lhs []ast.Expr) ([]string, bool) {
	var out []string
	for _, l := range lhs {
		id, ok := l.(*ast.Ident)
		if !ok {
			return nil, false
		}
		out = append(out, id.Name)
	}
	return out, true
}

// a block in continuation form
func (c *onCtx) block(list []ast.Stmt) string {
	if len(list) == 0 {
		return "OsEnd"
	}
	s, after := list[0], list[1:]
	switch x := s.(type) {
	case *ast.ReturnStmt:
		if len(after) != 0 {
			break // statements after a return
		}
		return "(OsReturn " + c.exps(x.Results) + ")"
	case *ast.BranchStmt:
		if x.Tok == token.CONTINUE && x.Label == nil && len(after) == 0 {
			return "OsContinue"
		}
	case *ast.IfStmt:
		if x.Else != nil {
			break
		}
		if x.Init == nil {
			return "(OsIf " + c.exp(x.Cond) + " " + c.block(x.Body.List) + " " + c.block(after) + ")"
		}
		if as, ok := x.Init.(*ast.AssignStmt); ok && as.Tok == token.DEFINE && len(as.Rhs) == 1 {
			if vs, ok := defNames(as.Lhs); ok {
				return "(OsIfInit " + nameList(vs) + " " + c.exp(as.Rhs[0]) + " " + c.exp(x.Cond) + " " +
					c.block(x.Body.List) + " " + c.block(after) + ")"
			}
		}
	case *ast.AssignStmt:
		if x.Tok == token.DEFINE && len(x.Rhs) == 1 {
			if vs, ok := defNames(x.Lhs); ok {
				return "(OsDefine " + nameList(vs) + " " + c.exp(x.Rhs[0]) + " " + c.block(after) + ")"
			}
		}
	case *ast.RangeStmt:
		if x.Tok != token.DEFINE || x.Key == nil || !isIdent(x.Key, "_") || x.Value == nil {
			break
		}
		v, ok := x.Value.(*ast.Ident)
		if !ok {
			break
		}
		return "(OsRange " + coqStr(v.Name) + " " + c.exp(x.X) + " " + c.block(x.Body.List) + " " + c.block(after) + ")"
	}
	return c.sunrec(s)
}

func (t *T) genOnT() string {
	var sb strings.Builder
	sb.WriteString("From AP.Model Require Import Prelude Vocab OnTab.\n\n")
	type ent struct{ name, text string }
	var fns []ent
	for _, f := range t.pkg.Syntax {
		if strings.HasSuffix(t.fset.Position(f.Pos()).Filename, "zz_verif_hooks.go") {
			continue
		}
		for _, d := range f.Decls {
			fd, ok := d.(*ast.FuncDecl)
			if !ok || fd.Body == nil || fd.Recv != nil || !onFuncName.MatchString(fd.Name.Name) {
				continue
			}
			name := fd.Name.Name
			if fd.Type.TypeParams != nil {
				var tp []string
				for _, fl := range fd.Type.TypeParams.List {
					for _, n := range fl.Names {
						tp = append(tp, n.Name)
					}
				}
				name += "[" + strings.Join(tp, ",") + "]"
			}
			var params []string
			for _, fl := range fd.Type.Params.List {
				for _, n := range fl.Names {
					params = append(params, n.Name)
				}
			}
			c := &onCtx{t: t}
			fns = append(fns, ent{name, fmt.Sprintf("(* %s *)\n  mkofn %s %s\n    %s", t.pos(fd), coqStr(name), nameList(params), c.block(fd.Body.List))})
		}
	}
	sort.Slice(fns, func(i, j int) bool { return fns[i].name < fns[j].name })
	var parts []string
	for _, f := range fns {
		parts = append(parts, f.text)
	}
	fmt.Fprintf(&sb, "Definition on_fns : list ofn := [\n  %s].\n", strings.Join(parts, ";\n  "))
	return sb.String()
}
