package main

// Emitter for coq/Gen/PredT.v (vocabulary: coq/Model/PredTab.v).
//
//   pred_fns : the bodies of the primitive predicates and accessors nearly every model applies -
//       IsIRI, IsIRIs, IsLink, IsItemCollection, IsObject, IsNil                         (item.go)
//       NotEmpty, notEmptyLink, notEmptyObject, notEmptyInstransitiveActivity,
//       notEmptyActivity, notEmptyActor, DerefItem                                       (helpers.go)
//       GetLink / GetID / GetType / IsObject / IsLink / IsCollection of the 14 struct types, IRI, IRIs, ItemCollection
//       ItemCollection.Normalize, ItemCollection.First, (*ItemCollection).Collection, (*IRIs).Collection
//     statement by statement and expression by expression, in a small imperative language: type assertions and type
//     switches over Go types (struct kinds in value and pointer form, IRI, ItemCollection, IRIs), comparisons with nil
//     tagged with the static type class of the operand (interface / pointer / slice: a typed nil pointer in an
//     interface is not a nil interface), field reads tagged with the field's Go type, calls resolved through
//     go/types (package function by name, method through an interface as EDyn = dynamic dispatch, statically
//     resolved method as EMeth "T.M" / "*T.M" / "pkg.T.M"), closures handed to On<T>.  Whatever is outside the
//     language becomes an explicit PUnrec / EUnrec entry with its source text and position; nothing is dropped.
//
// The translation is structural; what a body means is decided on the Coq side by an interpreter, and whether it is
// the body the hand-written predicates of Model/Pred.v were written after by a decidable comparison there.

import (
	"fmt"
	"go/ast"
	"go/constant"
	"go/token"
	"go/types"
	"sort"
	"strings"
)

var predFuncs = []string{"IsIRI", "IsIRIs", "IsLink", "IsItemCollection", "IsObject", "IsNil",
	"NotEmpty", "notEmptyLink", "notEmptyObject", "notEmptyInstransitiveActivity", "notEmptyActivity", "notEmptyActor",
	"DerefItem"}

var predIfaceMethods = map[string]bool{"GetLink": true, "GetID": true, "GetType": true, "IsObject": true, "IsLink": true,
	"IsCollection": true}

var predExtraMethods = map[string]bool{"ItemCollection.Normalize": true, "ItemCollection.First": true,
	"ItemCollection.Collection": true, "IRIs.Collection": true}

var predLeafStructs = map[string]bool{"Source": true, "PublicKey": true}

type pdCtx struct {
	t         *T
	declared  map[string]bool
	inClosure bool   // inside a func literal returning error
	resType   string // result type of the enclosing function
}

func (c *pdCtx) typeOf(e ast.Expr) types.Type { return c.t.pkg.TypesInfo.TypeOf(e) }

func (c *pdCtx) typeStr(ty types.Type) string {
	if ty == nil {
		return "?"
	}
	return types.TypeString(types.Unalias(ty), func(p *types.Package) string {
		if p == c.t.pkg.Types {
			return ""
		}
		return p.Name()
	})
}

func (c *pdCtx) eunrec(e ast.Node) string { return "(" + c.t.unrec("EUnrec", e) + ")" }
func (c *pdCtx) punrec(s ast.Node) string { return "(" + c.t.unrec("PUnrec", s) + ")" }

// base of a Go type among the item types: (tbase term, isPointer, ok)
func (c *pdCtx) tbase(ty types.Type) (string, bool, bool) {
	ptr := false
	if p, ok := types.Unalias(ty).(*types.Pointer); ok {
		ptr = true
		ty = p.Elem()
	}
	n, ok := types.Unalias(ty).(*types.Named)
	if !ok || n.Obj().Pkg() != c.t.pkg.Types {
		return "", false, false
	}
	switch n.Obj().Name() {
	case "IRI":
		return "TBIri", ptr, true
	case "ItemCollection":
		return "TBItems", ptr, true
	case "IRIs":
		return "TBIris", ptr, true
	}
	if k, known := kindOf[n.Obj().Name()]; known {
		return "(TBK " + k + ")", ptr, true
	}
	return "", false, false
}

// a Go type named in a type assertion / a case of a type switch
func (c *pdCtx) gty(e ast.Expr) string {
	ty := c.typeOf(e)
	if ty == nil {
		return "(GOther " + coqStr(c.t.src(e)) + ")"
	}
	if b, ptr, ok := c.tbase(ty); ok {
		return "(GT " + cboolS(ptr) + " " + b + ")"
	}
	if _, isIface := ty.Underlying().(*types.Interface); isIface {
		return "(GIface " + coqStr(c.t.src(e)) + ")"
	}
	return "(GOther " + coqStr(c.t.src(e)) + ")"
}

// static type class of an operand compared with nil
func nilClass(ty types.Type) (string, bool) {
	if ty == nil {
		return "", false
	}
	switch ty.Underlying().(type) {
	case *types.Interface:
		return "NIface", true
	case *types.Pointer:
		return "NPtr", true
	case *types.Slice:
		return "NSlice", true
	}
	return "", false
}

func (c *pdCtx) isLocal(id *ast.Ident) bool {
	if _, isVar := c.t.pkg.TypesInfo.Uses[id].(*types.Var); !isVar {
		return false
	}
	return c.declared[id.Name]
}

func (c *pdCtx) args(es []ast.Expr) string {
	out := "ENoArg"
	for i := len(es) - 1; i >= 0; i-- {
		out = "(EArg " + c.pexp(es[i]) + " " + out + ")"
	}
	return out
}

// a constant expression by its value
func (c *pdCtx) constant(e ast.Expr) (string, bool) {
	tv, ok := c.t.pkg.TypesInfo.Types[e]
	if !ok || tv.Value == nil {
		return "", false
	}
	switch tv.Value.Kind() {
	case constant.String:
		return "(EStr " + coqStr(constant.StringVal(tv.Value)) + ")", true
	case constant.Bool:
		return "(EBool " + cboolS(constant.BoolVal(tv.Value)) + ")", true
	case constant.Int:
		if n, exact := constant.Int64Val(tv.Value); exact && n >= 0 && n < 1<<20 {
			return fmt.Sprintf("(EInt %d)", n), true
		}
	}
	return "", false
}

func (c *pdCtx) pexp(e ast.Expr) string {
	if k, ok := c.constant(e); ok {
		return k
	}
	switch x := e.(type) {
	case *ast.ParenExpr:
		return c.pexp(x.X)
	case *ast.Ident:
		if c.isLocal(x) {
			return "(EVar " + coqStr(x.Name) + ")"
		}
	case *ast.StarExpr:
		return "(EDeref " + c.pexp(x.X) + ")"
	case *ast.UnaryExpr:
		if x.Op == token.NOT {
			return "(ENot " + c.pexp(x.X) + ")"
		}
	case *ast.BinaryExpr:
		switch x.Op {
		case token.LAND:
			return "(EAnd " + c.pexp(x.X) + " " + c.pexp(x.Y) + ")"
		case token.LOR:
			return "(EOr " + c.pexp(x.X) + " " + c.pexp(x.Y) + ")"
		case token.GTR:
			return "(EGt " + c.pexp(x.X) + " " + c.pexp(x.Y) + ")"
		case token.ADD:
			return "(EAdd " + c.pexp(x.X) + " " + c.pexp(x.Y) + ")"
		case token.EQL, token.NEQ:
			r := ""
			if isIdent(x.Y, "nil") || isIdent(x.X, "nil") {
				other := x.X
				if isIdent(x.X, "nil") {
					other = x.Y
				}
				cls, ok := nilClass(c.typeOf(other))
				if !ok {
					break
				}
				r = "(EIsNil " + cls + " " + c.pexp(other) + ")"
			} else {
				r = "(EEq " + c.pexp(x.X) + " " + c.pexp(x.Y) + ")"
			}
			if x.Op == token.NEQ {
				return "(ENot " + r + ")"
			}
			return r
		}
	case *ast.SelectorExpr:
		sel, has := c.t.pkg.TypesInfo.Selections[x]
		if !has || sel.Kind() != types.FieldVal || len(sel.Index()) != 1 {
			break // an embedded-field path is outside the language
		}
		recv := sel.Recv()
		if p, ok := types.Unalias(recv).(*types.Pointer); ok {
			recv = p.Elem()
		}
		n, ok := types.Unalias(recv).(*types.Named)
		if !ok || n.Obj().Pkg() != c.t.pkg.Types {
			break
		}
		if _, known := kindOf[n.Obj().Name()]; known {
			return "(EField " + c.pexp(x.X) + " F_" + x.Sel.Name + " " + c.t.gotype(sel.Type()) + ")"
		}
		if predLeafStructs[n.Obj().Name()] {
			return "(ESub " + c.pexp(x.X) + " " + coqStr(x.Sel.Name) + ")"
		}
	case *ast.IndexExpr:
		if tv, ok := c.t.pkg.TypesInfo.Types[x.Index]; ok && tv.Value != nil && tv.Value.Kind() == constant.Int {
			if n, exact := constant.Int64Val(tv.Value); exact && n >= 0 {
				return fmt.Sprintf("(EIndex %s %d)", c.pexp(x.X), n)
			}
		}
	case *ast.CompositeLit:
		if len(x.Elts) == 1 {
			if _, isKV := x.Elts[0].(*ast.KeyValueExpr); !isKV {
				return "(ELit1 " + coqStr(c.typeStr(c.typeOf(x))) + " " + c.pexp(x.Elts[0]) + ")"
			}
		}
	case *ast.CallExpr:
		// a conversion T(x)
		if tv, ok := c.t.pkg.TypesInfo.Types[x.Fun]; ok && tv.IsType() && len(x.Args) == 1 {
			return "(EConv " + coqStr(c.typeStr(tv.Type)) + " " + c.pexp(x.Args[0]) + ")"
		}
		switch f := x.Fun.(type) {
		case *ast.Ident:
			switch o := c.t.pkg.TypesInfo.Uses[f].(type) {
			case *types.Builtin:
				if o.Name() == "len" && len(x.Args) == 1 {
					return "(ELen " + c.pexp(x.Args[0]) + ")"
				}
			case *types.Func:
				if sig, ok := o.Type().(*types.Signature); ok && sig.Recv() == nil && o.Pkg() == c.t.pkg.Types {
					if _, isLit := lastFuncLit(x.Args); isLit {
						break // a closure argument: statement level only
					}
					return "(ECall " + coqStr(o.Name()) + " " + c.args(x.Args) + ")"
				}
			}
		case *ast.SelectorExpr:
			if sel, has := c.t.pkg.TypesInfo.Selections[f]; has {
				fn, isFn := sel.Obj().(*types.Func)
				if !isFn || sel.Kind() != types.MethodVal {
					break
				}
				// <TypeList>.Contains(t)
				if id, isId := f.X.(*ast.Ident); isId && fn.Name() == "Contains" && len(x.Args) == 1 &&
					c.typeStr(c.typeOf(f.X)) == "ActivityVocabularyTypes" {
					if v, isVar := c.t.pkg.TypesInfo.Uses[id].(*types.Var); isVar && v.Parent() == c.t.pkg.Types.Scope() {
						return "(ETypeIn " + coqStr(id.Name) + " " + c.pexp(x.Args[0]) + ")"
					}
				}
				if rt := c.typeOf(f.X); rt != nil {
					if _, isIface := rt.Underlying().(*types.Interface); isIface {
						return "(EDyn " + coqStr(fn.Name()) + " " + c.pexp(f.X) + " " + c.args(x.Args) + ")"
					}
				}
				return "(EMeth " + coqStr(methodFullName(c.t.pkg.Types, fn)) + " " + c.pexp(f.X) + " " + c.args(x.Args) + ")"
			}
			// a function of another package
			if fn, ok := c.t.pkg.TypesInfo.Uses[f.Sel].(*types.Func); ok && fn.Pkg() != nil && fn.Pkg() != c.t.pkg.Types {
				return "(ECall " + coqStr(fn.Pkg().Name()+"."+fn.Name()) + " " + c.args(x.Args) + ")"
			}
		}
	}
	return c.eunrec(e)
}

func lastFuncLit(args []ast.Expr) (*ast.FuncLit, bool) {
	if len(args) == 0 {
		return nil, false
	}
	fl, ok := args[len(args)-1].(*ast.FuncLit)
	return fl, ok
}

// scopes: names declared inside go out of scope at the end; shadowing a live name is outside the language
func (c *pdCtx) scoped(f func() string) string {
	saved := map[string]bool{}
	for k, v := range c.declared {
		saved[k] = v
	}
	out := f()
	c.declared = saved
	return out
}

func (c *pdCtx) declare(name string) bool {
	if name == "_" {
		return true
	}
	if c.declared[name] {
		return false
	}
	c.declared[name] = true
	return true
}

func (c *pdCtx) block(list []ast.Stmt) string {
	return c.scoped(func() string {
		var out []string
		for _, s := range list {
			out = append(out, c.stmt(s)...)
		}
		return "(pblk [" + strings.Join(out, "; ") + "])"
	})
}

// v, ok := x.(T)
func (c *pdCtx) assertStmt(s ast.Stmt) (string, bool) {
	as, ok := s.(*ast.AssignStmt)
	if !ok || as.Tok != token.DEFINE || len(as.Lhs) != 2 || len(as.Rhs) != 1 {
		return "", false
	}
	ta, ok := as.Rhs[0].(*ast.TypeAssertExpr)
	if !ok || ta.Type == nil {
		return "", false
	}
	v, ok1 := as.Lhs[0].(*ast.Ident)
	okv, ok2 := as.Lhs[1].(*ast.Ident)
	if !ok1 || !ok2 {
		return "", false
	}
	e := c.pexp(ta.X) // before the new names come into scope
	if !c.declare(v.Name) || !c.declare(okv.Name) {
		return "", false
	}
	return fmt.Sprintf("(PAssert %s %s %s %s)", coqStr(v.Name), coqStr(okv.Name), c.gty(ta.Type), e), true
}

// [_ =] On<X>(arg, func(p T) error { ... })
func (c *pdCtx) onCall(e ast.Expr) (string, bool) {
	call, ok := e.(*ast.CallExpr)
	if !ok || len(call.Args) != 2 {
		return "", false
	}
	id, ok := call.Fun.(*ast.Ident)
	if !ok {
		return "", false
	}
	fn, ok := c.t.pkg.TypesInfo.Uses[id].(*types.Func)
	if !ok || fn.Pkg() != c.t.pkg.Types || !strings.HasPrefix(fn.Name(), "On") {
		return "", false
	}
	fl, ok := call.Args[1].(*ast.FuncLit)
	if !ok || len(fl.Type.Params.List) != 1 || len(fl.Type.Params.List[0].Names) != 1 {
		return "", false
	}
	if fl.Type.Results == nil || len(fl.Type.Results.List) != 1 || c.t.src(fl.Type.Results.List[0].Type) != "error" {
		return "", false
	}
	arg := c.pexp(call.Args[0])
	p := fl.Type.Params.List[0].Names[0].Name
	var body string
	okDecl := true
	c.scoped(func() string {
		if !c.declare(p) {
			okDecl = false
			return ""
		}
		savedC, savedR := c.inClosure, c.resType
		c.inClosure, c.resType = true, "error"
		body = c.block(fl.Body.List)
		c.inClosure, c.resType = savedC, savedR
		return ""
	})
	if !okDecl {
		return "", false
	}
	return fmt.Sprintf("(POn %s %s %s %s)", coqStr(fn.Name()), arg, coqStr(p), body), true
}

func (c *pdCtx) stmt(s ast.Stmt) []string {
	switch x := s.(type) {
	case *ast.ReturnStmt:
		if len(x.Results) != 1 {
			break
		}
		if isIdent(x.Results[0], "nil") {
			if c.inClosure {
				return []string{"PReturnNil"}
			}
			return []string{"(PReturn (ENilOf " + coqStr(c.resType) + "))"}
		}
		if c.inClosure {
			break // a closure returning a non-nil error is outside the language
		}
		return []string{"(PReturn " + c.pexp(x.Results[0]) + ")"}
	case *ast.IfStmt:
		var out []string
		c.scoped(func() string {
			var pre []string
			if x.Init != nil {
				if a, ok := c.assertStmt(x.Init); ok {
					pre = append(pre, a)
				} else if d := c.stmt(x.Init); len(d) == 1 && !strings.HasPrefix(d[0], "(PUnrec") {
					pre = append(pre, d[0])
				} else {
					out = []string{c.punrec(s)}
					return ""
				}
			}
			cond := c.pexp(x.Cond)
			then := c.block(x.Body.List)
			els := "PSkip"
			switch e := x.Else.(type) {
			case nil:
			case *ast.BlockStmt:
				els = c.block(e.List)
			case *ast.IfStmt:
				inner := c.stmt(e)
				if len(inner) == 1 {
					els = inner[0]
				} else {
					els = "(pblk [" + strings.Join(inner, "; ") + "])"
				}
			default:
				out = []string{c.punrec(s)}
				return ""
			}
			out = append(pre, fmt.Sprintf("(PIf %s %s %s)", cond, then, els))
			return ""
		})
		// the names of the init statement are visible in the if statement only, but its PAssert / PDecl entries are
		// emitted in front of the PIf: the flat state of the interpreter keeps them, which no later statement reads
		return out
	case *ast.AssignStmt:
		if a, ok := c.assertStmt(s); ok {
			return []string{a}
		}
		if len(x.Lhs) != 1 || len(x.Rhs) != 1 {
			break
		}
		if x.Tok == token.ASSIGN && isIdent(x.Lhs[0], "_") {
			if on, ok := c.onCall(x.Rhs[0]); ok {
				return []string{on}
			}
			break
		}
		id, ok := x.Lhs[0].(*ast.Ident)
		if !ok {
			break
		}
		if x.Tok == token.DEFINE {
			e := c.pexp(x.Rhs[0])
			if !c.declare(id.Name) {
				break
			}
			return []string{"(PDecl " + coqStr(id.Name) + " " + e + ")"}
		}
		if x.Tok == token.ASSIGN && c.isLocal(id) {
			return []string{"(PSet " + coqStr(id.Name) + " " + c.pexp(x.Rhs[0]) + ")"}
		}
	case *ast.DeclStmt:
		gd, ok := x.Decl.(*ast.GenDecl)
		if !ok || gd.Tok != token.VAR || len(gd.Specs) != 1 {
			break
		}
		vs := gd.Specs[0].(*ast.ValueSpec)
		if len(vs.Names) != 1 {
			break
		}
		if len(vs.Values) == 0 && vs.Type != nil {
			if !c.declare(vs.Names[0].Name) {
				break
			}
			return []string{"(PVarZero " + coqStr(vs.Names[0].Name) + " " + coqStr(c.typeStr(c.typeOf(vs.Type))) + ")"}
		}
		if len(vs.Values) == 1 {
			e := c.pexp(vs.Values[0])
			if !c.declare(vs.Names[0].Name) {
				break
			}
			return []string{"(PDecl " + coqStr(vs.Names[0].Name) + " " + e + ")"}
		}
	case *ast.ExprStmt:
		if on, ok := c.onCall(x.X); ok {
			return []string{on}
		}
	case *ast.TypeSwitchStmt:
		if x.Init != nil {
			break
		}
		bind := "_"
		var ta *ast.TypeAssertExpr
		switch a := x.Assign.(type) {
		case *ast.AssignStmt:
			if len(a.Lhs) == 1 && len(a.Rhs) == 1 && a.Tok == token.DEFINE {
				if id, ok := a.Lhs[0].(*ast.Ident); ok {
					bind = id.Name
					ta, _ = a.Rhs[0].(*ast.TypeAssertExpr)
				}
			}
		case *ast.ExprStmt:
			ta, _ = a.X.(*ast.TypeAssertExpr)
		}
		if ta == nil || ta.Type != nil {
			break
		}
		subject := c.pexp(ta.X)
		var out string
		okAll := true
		c.scoped(func() string {
			if !c.declare(bind) {
				okAll = false
				return ""
			}
			type clause struct{ tys, body string }
			var cases []clause
			dflt := ""
			hasDflt := false
			for _, cs := range x.Body.List {
				cc := cs.(*ast.CaseClause)
				body := c.block(cc.Body)
				if cc.List == nil {
					dflt, hasDflt = body, true
					continue
				}
				var tys []string
				for _, te := range cc.List {
					if isIdent(te, "nil") {
						okAll = false // `case nil` is outside the language
					}
					tys = append(tys, c.gty(te))
				}
				cases = append(cases, clause{"[" + strings.Join(tys, "; ") + "]", body})
			}
			chain := "PEndCases"
			if hasDflt {
				chain = "(PDefault " + dflt + ")"
			}
			for i := len(cases) - 1; i >= 0; i-- {
				chain = fmt.Sprintf("(PCase %s %s %s)", cases[i].tys, cases[i].body, chain)
			}
			out = fmt.Sprintf("(PSwitch %s %s %s)", coqStr(bind), subject, chain)
			return ""
		})
		if !okAll {
			break
		}
		return []string{out}
	}
	return []string{c.punrec(s)}
}

func (c *pdCtx) fn(fd *ast.FuncDecl, name string) string {
	c.declared = map[string]bool{}
	c.inClosure = false
	c.resType = "?"
	if fd.Type.Results != nil && len(fd.Type.Results.List) == 1 && len(fd.Type.Results.List[0].Names) == 0 {
		c.resType = c.typeStr(c.typeOf(fd.Type.Results.List[0].Type))
	}
	recv := "None"
	if fd.Recv != nil && len(fd.Recv.List) == 1 && len(fd.Recv.List[0].Names) == 1 {
		r := fd.Recv.List[0].Names[0].Name
		c.declared[r] = true
		recv = "(Some " + coqStr(r) + ")"
	}
	var params []string
	for _, f := range fd.Type.Params.List {
		for _, n := range f.Names {
			c.declared[n.Name] = true
			params = append(params, coqStr(n.Name))
		}
	}
	body := c.block(fd.Body.List)
	return fmt.Sprintf("mkpfn %s %s [%s]\n    %s", coqStr(name), recv, strings.Join(params, "; "), body)
}

func (t *T) genPredT() string {
	var sb strings.Builder
	sb.WriteString("From AP.Model Require Import Prelude Vocab Layout PredTab.\n\n")
	decls := map[string]*ast.FuncDecl{}
	var methods []string
	recvTypes := map[string]bool{"IRI": true, "IRIs": true, "ItemCollection": true}
	for k := range kindOf {
		recvTypes[k] = true
	}
	for _, f := range t.pkg.Syntax {
		if strings.HasSuffix(t.fset.Position(f.Pos()).Filename, "zz_verif_hooks.go") {
			continue
		}
		for _, d := range f.Decls {
			fd, ok := d.(*ast.FuncDecl)
			if !ok || fd.Body == nil {
				continue
			}
			name := funcDeclName(t, fd) // a pointer receiver shows as "*T.M"
			decls[name] = fd
			if fd.Recv == nil {
				continue
			}
			base := strings.TrimPrefix(name, "*")
			dot := strings.Index(base, ".")
			if dot < 0 || !recvTypes[base[:dot]] {
				continue
			}
			if predIfaceMethods[fd.Name.Name] || predExtraMethods[base] {
				methods = append(methods, name)
			}
		}
	}
	sort.Strings(methods)
	var fns []string
	for _, name := range append(append([]string{}, predFuncs...), methods...) {
		fd, ok := decls[name]
		if !ok {
			continue // a missing function is missed by the table condition
		}
		c := &pdCtx{t: t}
		fns = append(fns, "(* "+t.pos(fd)+" *)\n  "+c.fn(fd, name))
	}
	fmt.Fprintf(&sb, "Definition pred_fns : list pfn := [\n  %s].\n", strings.Join(fns, ";\n  "))
	return sb.String()
}
