package main

// Emitter for coq/Gen/RecipListT.v: the Recipients() methods whose receiver is not one of the vocabulary structs
// (today: ItemCollection), statement by statement (vocabulary: coq/Model/RecipListTab.v; the arguments of
// ItemCollectionDeduplication in the vocabulary of recipt.go).
//
//   recip_list_methods : per method (receiver type, pointer receiver?) the body
//       RLInit "v"                               v := make(ItemCollection, 0)
//       RLRangeOnObject "it" "ob" [inner...]      for _, it := range recv { _ = OnObject(it, func(ob *Object) error {...}) }
//       RLReturnDedup [args]                     return ItemCollectionDeduplication(args...)
//       RLUnrecognised "source" "file:line"
//     inner: RINilGuard "ob" | RICopy "v" field | RIAppendDedup "all" [args] | RIReturnNil | RIUnrecognised ..
//
// A statement that matches no pattern is emitted as an explicit Unrecognised entry, never dropped.

import (
	"fmt"
	"go/ast"
	"go/token"
	"sort"
	"strings"
)

func (t *T) recipListInner(fl *ast.FuncLit, ob string) []string {
	var out []string
	for _, s := range fl.Body.List {
		switch x := s.(type) {
		case *ast.IfStmt:
			// if ob == nil { return nil }
			if is, ok := plainIf(x); ok && len(is.Body.List) == 1 && t.src(is.Cond) == ob+" == nil" && t.src(is.Body.List[0]) == "return nil" {
				out = append(out, "RINilGuard "+coqStr(ob))
				continue
			}
		case *ast.AssignStmt:
			if len(x.Lhs) == 1 && len(x.Rhs) == 1 {
				// v := ob.F
				if v, ok := x.Lhs[0].(*ast.Ident); ok && x.Tok == token.DEFINE {
					if f, ok := selOn(x.Rhs[0], ob); ok {
						out = append(out, fmt.Sprintf("RICopy %s F_%s", coqStr(v.Name), f))
						continue
					}
				}
				// _ = all.Append(ItemCollectionDeduplication(args...)...)
				if isIdent(x.Lhs[0], "_") && x.Tok == token.ASSIGN {
					if call, ok := x.Rhs[0].(*ast.CallExpr); ok && call.Ellipsis.IsValid() && len(call.Args) == 1 {
						if sel, ok := call.Fun.(*ast.SelectorExpr); ok && sel.Sel.Name == "Append" {
							if all, ok := sel.X.(*ast.Ident); ok {
								if dd, ok := call.Args[0].(*ast.CallExpr); ok && isIdent(dd.Fun, "ItemCollectionDeduplication") && !dd.Ellipsis.IsValid() {
									var args []string
									for _, a := range dd.Args {
										args = append(args, t.dedupArg(a, ob))
									}
									out = append(out, fmt.Sprintf("RIAppendDedup %s [%s]", coqStr(all.Name), strings.Join(args, "; ")))
									continue
								}
							}
						}
					}
				}
			}
		case *ast.ReturnStmt:
			if t.src(x) == "return nil" {
				out = append(out, "RIReturnNil")
				continue
			}
		}
		out = append(out, t.unrec("RIUnrecognised", s))
	}
	return out
}

func (t *T) recipListBody(fd *ast.FuncDecl, recv string) []string {
	var out []string
	for _, s := range fd.Body.List {
		switch x := s.(type) {
		case *ast.AssignStmt:
			// v := make(ItemCollection, 0)
			if x.Tok == token.DEFINE && len(x.Lhs) == 1 && len(x.Rhs) == 1 {
				if v, ok := x.Lhs[0].(*ast.Ident); ok && t.src(x.Rhs[0]) == "make(ItemCollection, 0)" {
					out = append(out, "RLInit "+coqStr(v.Name))
					continue
				}
			}
		case *ast.RangeStmt:
			// for _, it := range recv { _ = OnObject(it, func(ob *Object) error { ... }) }
			if x.Tok == token.DEFINE && isIdent(x.Key, "_") && isIdent(x.X, recv) && len(x.Body.List) == 1 {
				if it, ok := x.Value.(*ast.Ident); ok {
					if as, ok := x.Body.List[0].(*ast.AssignStmt); ok && as.Tok == token.ASSIGN && len(as.Lhs) == 1 && len(as.Rhs) == 1 && isIdent(as.Lhs[0], "_") {
						if call, ok := as.Rhs[0].(*ast.CallExpr); ok && isIdent(call.Fun, "OnObject") && len(call.Args) == 2 && isIdent(call.Args[0], it.Name) && !call.Ellipsis.IsValid() {
							if fl, ok := call.Args[1].(*ast.FuncLit); ok && len(fl.Type.Params.List) == 1 && len(fl.Type.Params.List[0].Names) == 1 && t.src(fl.Type.Params.List[0].Type) == "*Object" &&
								fl.Type.Results != nil && len(fl.Type.Results.List) == 1 && t.src(fl.Type.Results.List[0].Type) == "error" {
								ob := fl.Type.Params.List[0].Names[0].Name
								out = append(out, fmt.Sprintf("RLRangeOnObject %s %s [\n      %s]", coqStr(it.Name), coqStr(ob), strings.Join(t.recipListInner(fl, ob), ";\n      ")))
								continue
							}
						}
					}
				}
			}
		case *ast.ReturnStmt:
			if len(x.Results) == 1 {
				if call, ok := x.Results[0].(*ast.CallExpr); ok && isIdent(call.Fun, "ItemCollectionDeduplication") && !call.Ellipsis.IsValid() {
					var args []string
					for _, a := range call.Args {
						args = append(args, t.dedupArg(a, recv))
					}
					out = append(out, fmt.Sprintf("RLReturnDedup [%s]", strings.Join(args, "; ")))
					continue
				}
			}
		}
		out = append(out, t.unrec("RLUnrecognised", s))
	}
	return out
}

func (t *T) genRecipListT() string {
	var sb strings.Builder
	sb.WriteString("From AP.Model Require Import Prelude Vocab RecipTab RecipListTab.\n\n")
	var entries []string
	for _, f := range t.pkg.Syntax {
		for _, d := range f.Decls {
			fd, ok := d.(*ast.FuncDecl)
			if !ok || fd.Body == nil || fd.Recv == nil || fd.Name.Name != "Recipients" ||
				len(fd.Recv.List) != 1 || len(fd.Recv.List[0].Names) != 1 || len(fd.Type.Params.List) != 0 {
				continue
			}
			recv := fd.Recv.List[0].Names[0].Name
			ptr := false
			ty := fd.Recv.List[0].Type
			if st, ok := ty.(*ast.StarExpr); ok {
				ptr = true
				ty = st.X
			}
			name := t.src(ty)
			if id, ok := ty.(*ast.Ident); ok {
				if _, known := kindOf[id.Name]; known {
					continue // the struct types are in RecipT.v
				}
			}
			body := t.recipListBody(fd, recv)
			entries = append(entries, fmt.Sprintf("mkreciplistfn %s %s [\n    %s]", coqStr(name), cboolS(ptr), strings.Join(body, ";\n    ")))
		}
	}
	sort.Strings(entries)
	fmt.Fprintf(&sb, "Definition recip_list_methods : list reciplistfn := [\n  %s].\n", strings.Join(entries, ";\n  "))
	return sb.String()
}
