package main

// Emitter for coq/Gen/RecipT.v: what the Recipients() methods and removeFromAudience say now, statement by
// statement (vocabulary: coq/Model/RecipTab.v).
//
//   recip_methods : per Recipients() method with a struct receiver (kind, pointer receiver?) the body
//       RSCopy "v" field | RSRemoveDecl "v" | RSRemoveIf "TypeName" field "v" | RSRemoveApply "v" "fn"
//       | RSReturnDedup [RAddr field | RLocal "v" | RSingle field | RArgUnrecognised "source" "file:line"]
//       | RSUnrecognised "source" "file:line"
//   remove_from_audience : RemField field ... RemReturnNil
//   recip_other_receivers : other receiver types with a Recipients() method
//
// Local variables are emitted by name and resolved on the Coq side.  A statement that matches no pattern is
// emitted as an explicit Unrecognised entry, never dropped.

import (
	"fmt"
	"go/ast"
	"go/token"
	"sort"
	"strings"
)

// dedupArg translates one argument of ItemCollectionDeduplication.
func (t *T) dedupArg(e ast.Expr, recv string) string {
	u, ok := e.(*ast.UnaryExpr)
	if !ok || u.Op != token.AND {
		return t.unrec("RArgUnrecognised", e)
	}
	if f, ok := selOn(u.X, recv); ok {
		return "RAddr F_" + f
	}
	if id, ok := u.X.(*ast.Ident); ok {
		return "RLocal " + coqStr(id.Name)
	}
	if cl, ok := u.X.(*ast.CompositeLit); ok && t.src(cl.Type) == "ItemCollection" && len(cl.Elts) == 1 {
		if f, ok := selOn(cl.Elts[0], recv); ok {
			return "RSingle F_" + f
		}
	}
	return t.unrec("RArgUnrecognised", e)
}

func (t *T) recipBody(fd *ast.FuncDecl, recv string) []string {
	var out []string
	for _, s := range fd.Body.List {
		switch x := s.(type) {
		case *ast.AssignStmt:
			// v := x.F
			if x.Tok == token.DEFINE && len(x.Lhs) == 1 && len(x.Rhs) == 1 {
				if v, ok := x.Lhs[0].(*ast.Ident); ok {
					if f, ok := selOn(x.Rhs[0], recv); ok {
						out = append(out, fmt.Sprintf("RSCopy %s F_%s", coqStr(v.Name), f))
						continue
					}
				}
			}
		case *ast.DeclStmt:
			// var v ItemCollection
			if gd, ok := x.Decl.(*ast.GenDecl); ok && gd.Tok == token.VAR && len(gd.Specs) == 1 {
				vs := gd.Specs[0].(*ast.ValueSpec)
				if len(vs.Names) == 1 && len(vs.Values) == 0 && vs.Type != nil && t.src(vs.Type) == "ItemCollection" {
					out = append(out, "RSRemoveDecl "+coqStr(vs.Names[0].Name))
					continue
				}
			}
		case *ast.ReturnStmt:
			// return ItemCollectionDeduplication(args...)
			if len(x.Results) == 1 {
				if call, ok := x.Results[0].(*ast.CallExpr); ok && isIdent(call.Fun, "ItemCollectionDeduplication") && !call.Ellipsis.IsValid() {
					var args []string
					for _, a := range call.Args {
						args = append(args, t.dedupArg(a, recv))
					}
					out = append(out, fmt.Sprintf("RSReturnDedup [%s]", strings.Join(args, "; ")))
					continue
				}
			}
		case *ast.IfStmt:
			if e, ok := t.recipIf(x, recv); ok {
				out = append(out, e)
				continue
			}
		}
		out = append(out, t.unrec("RSUnrecognised", s))
	}
	return out
}

// recipIf recognises the two if statements of the Block clause.
func (t *T) recipIf(is *ast.IfStmt, recv string) (string, bool) {
	if is.Init != nil || is.Else != nil || len(is.Body.List) != 1 {
		return "", false
	}
	// if x.GetType() == <const> && !IsNil(x.F) { v = append(v, x.F) }
	if b, ok := is.Cond.(*ast.BinaryExpr); ok && b.Op == token.LAND {
		l, ok1 := b.X.(*ast.BinaryExpr)
		r, ok2 := b.Y.(*ast.UnaryExpr)
		if ok1 && ok2 && l.Op == token.EQL && r.Op == token.NOT && t.src(l.X) == recv+".GetType()" {
			ty, okc := t.constString(l.Y)
			call, okn := r.X.(*ast.CallExpr)
			if okc && okn && isIdent(call.Fun, "IsNil") && len(call.Args) == 1 {
				if f, ok := selOn(call.Args[0], recv); ok {
					if as, ok := is.Body.List[0].(*ast.AssignStmt); ok && as.Tok == token.ASSIGN && len(as.Lhs) == 1 && len(as.Rhs) == 1 {
						if v, ok := as.Lhs[0].(*ast.Ident); ok && t.src(as.Rhs[0]) == fmt.Sprintf("append(%s, %s.%s)", v.Name, recv, f) {
							return fmt.Sprintf("RSRemoveIf %s F_%s %s", coqStr(ty), f, coqStr(v.Name)), true
						}
					}
				}
			}
		}
		return "", false
	}
	// if len(v) > 0 { _ = fn(x, v...) }
	if b, ok := is.Cond.(*ast.BinaryExpr); ok && b.Op == token.GTR && isLit0(b.Y) {
		if call, ok := b.X.(*ast.CallExpr); ok && isIdent(call.Fun, "len") && len(call.Args) == 1 {
			if v, ok := call.Args[0].(*ast.Ident); ok {
				if as, ok := is.Body.List[0].(*ast.AssignStmt); ok && as.Tok == token.ASSIGN && len(as.Lhs) == 1 && len(as.Rhs) == 1 && isIdent(as.Lhs[0], "_") {
					if c2, ok := as.Rhs[0].(*ast.CallExpr); ok && c2.Ellipsis.IsValid() && len(c2.Args) == 2 &&
						isIdent(c2.Args[0], recv) && isIdent(c2.Args[1], v.Name) {
						if fn, ok := c2.Fun.(*ast.Ident); ok {
							return fmt.Sprintf("RSRemoveApply %s %s", coqStr(v.Name), coqStr(fn.Name)), true
						}
					}
				}
			}
		}
	}
	return "", false
}

// removeSteps translates removeFromAudience(a *Activity, items ...Item).
func (t *T) removeSteps(fd *ast.FuncDecl) []string {
	ps := fd.Type.Params.List
	if len(ps) != 2 || len(ps[0].Names) != 1 || len(ps[1].Names) != 1 || t.src(ps[0].Type) != "*Activity" || t.src(ps[1].Type) != "...Item" {
		return []string{t.unrec("RemUnrecognised", fd.Type)}
	}
	a, items := ps[0].Names[0].Name, ps[1].Names[0].Name
	var out []string
	for _, s := range fd.Body.List {
		txt := t.src(s)
		if txt == "return nil" {
			out = append(out, "RemReturnNil")
			continue
		}
		if is, ok := plainIf(s); ok {
			if b, ok := is.Cond.(*ast.BinaryExpr); ok && b.Op == token.NEQ && isIdent(b.Y, "nil") {
				if f, ok := selOn(b.X, a); ok && t.src(is.Body) == fmt.Sprintf("{ %s.%s = removeFromCollection(%s.%s, %s...) }", a, f, a, f, items) {
					out = append(out, "RemField F_"+f)
					continue
				}
			}
		}
		out = append(out, t.unrec("RemUnrecognised", s))
	}
	return out
}

func (t *T) genRecipT() string {
	var sb strings.Builder
	sb.WriteString("From AP.Model Require Import Prelude Vocab RecipTab.\n\n")
	methods := map[string]string{}
	var others []string
	remove := []string{"RemUnrecognised (B \"removeFromAudience not found\") (B \"activity.go\")"}
	for _, f := range t.pkg.Syntax {
		for _, d := range f.Decls {
			fd, ok := d.(*ast.FuncDecl)
			if !ok || fd.Body == nil {
				continue
			}
			if fd.Recv == nil {
				if fd.Name.Name == "removeFromAudience" {
					remove = t.removeSteps(fd)
				}
				continue
			}
			if fd.Name.Name != "Recipients" || len(fd.Recv.List) != 1 || len(fd.Recv.List[0].Names) != 1 || len(fd.Type.Params.List) != 0 {
				continue
			}
			recv := fd.Recv.List[0].Names[0].Name
			ptr := false
			ty := fd.Recv.List[0].Type
			if st, ok := ty.(*ast.StarExpr); ok {
				ptr = true
				ty = st.X
			}
			id, ok := ty.(*ast.Ident)
			if !ok {
				others = append(others, t.src(fd.Recv.List[0].Type))
				continue
			}
			k, known := kindOf[id.Name]
			if !known {
				others = append(others, id.Name)
				continue
			}
			body := t.recipBody(fd, recv)
			methods[id.Name] = fmt.Sprintf("mkrecipfn %s %s [\n    %s]", k, cboolS(ptr), strings.Join(body, ";\n    "))
		}
	}
	var ordered []string
	for _, name := range kindOrder {
		if m, ok := methods[name]; ok {
			ordered = append(ordered, m)
		}
	}
	sort.Strings(others)
	var oq []string
	for _, o := range others {
		oq = append(oq, coqStr(o))
	}
	fmt.Fprintf(&sb, "Definition recip_methods : list recipfn := [\n  %s].\n\n", strings.Join(ordered, ";\n  "))
	fmt.Fprintf(&sb, "Definition remove_from_audience : list remstep := [\n  %s].\n\n", strings.Join(remove, ";\n  "))
	fmt.Fprintf(&sb, "Definition recip_other_receivers : list bytes := [\n  %s].\n", strings.Join(oq, "; "))
	return sb.String()
}
