package main

// Gen/Switches.v: every value switch over constant type names (GetItemByType, JSONLoadItem,
// gobEncodeItem, gobDecodeItem, OnCollectionIntf, ...): per case the constant names in source order and
// a tag describing what the case body does (first call / composite literal, and the first call inside a
// function literal argument).

import (
	"fmt"
	"go/ast"
	"go/token"
	"sort"
	"strings"
)

// bodyTag summarises a case body: "Outer/Inner" call names, or "&Type" for a composite literal.
func (t *T) bodyTag(stmts []ast.Stmt) string {
	var outer, inner string
	for _, st := range stmts {
		ast.Inspect(st, func(n ast.Node) bool {
			switch x := n.(type) {
			case *ast.BranchStmt:
				if x.Tok == token.FALLTHROUGH && outer == "" {
					outer = "fallthrough"
				}
			case *ast.UnaryExpr:
				if cl, ok := x.X.(*ast.CompositeLit); ok && x.Op == token.AND && outer == "" {
					outer = "&" + t.src(cl.Type)
				}
			case *ast.CallExpr:
				name := t.src(x.Fun)
				if outer == "" {
					outer = name
					for _, a := range x.Args {
						if fl, ok := a.(*ast.FuncLit); ok {
							ast.Inspect(fl.Body, func(m ast.Node) bool {
								if c, ok := m.(*ast.CallExpr); ok && inner == "" {
									inner = t.src(c.Fun)
								}
								return inner == ""
							})
						}
					}
					return false
				}
			}
			return true
		})
		if outer != "" {
			break
		}
	}
	if outer == "" {
		outer = "none"
	}
	if inner != "" {
		return outer + "/" + inner
	}
	return outer
}

func (t *T) genSwitches() string {
	var sb strings.Builder
	sb.WriteString("From AP.Model Require Import Prelude.\n\n")
	sb.WriteString("(* a switch: cases in source order, each (constant names, tag); the default tag; \"\" is the empty name *)\n")
	type sw struct {
		name  string
		rows  []string
		dflt  string
		where string
	}
	var sws []sw
	count := map[string]int{}
	for _, f := range t.pkg.Syntax {
		for _, d := range f.Decls {
			fd, ok := d.(*ast.FuncDecl)
			if !ok || fd.Body == nil {
				continue
			}
			fname := fd.Name.Name
			if fd.Recv != nil && len(fd.Recv.List) == 1 {
				fname = strings.TrimPrefix(t.src(fd.Recv.List[0].Type), "*") + "_" + fname
			}
			ast.Inspect(fd.Body, func(n ast.Node) bool {
				ss, ok := n.(*ast.SwitchStmt)
				if !ok || ss.Tag == nil {
					return true
				}
				var rows []string
				dflt := "none"
				good := true
				any := false
				for _, cs := range ss.Body.List {
					cc := cs.(*ast.CaseClause)
					if cc.List == nil {
						dflt = t.bodyTag(cc.Body)
						continue
					}
					var names []string
					for _, e := range cc.List {
						s, ok := t.constString(e)
						if !ok {
							good = false
							break
						}
						names = append(names, coqStr(s))
						any = true
					}
					if !good {
						break
					}
					rows = append(rows, fmt.Sprintf("([%s], %s)", strings.Join(names, "; "), coqStr(t.bodyTag(cc.Body))))
				}
				if !good || !any {
					return true
				}
				count[fname]++
				nm := fname
				if count[fname] > 1 {
					nm = fmt.Sprintf("%s_%d", fname, count[fname])
				}
				sws = append(sws, sw{nm, rows, dflt, t.pos(ss)})
				return true
			})
		}
	}
	sort.Slice(sws, func(i, j int) bool { return sws[i].name < sws[j].name })
	for _, s := range sws {
		fmt.Fprintf(&sb, "(* %s *)\nDefinition sw_%s : list (list bytes * bytes) := [\n  %s].\nDefinition sw_%s_default : bytes := %s.\n\n",
			s.where, s.name, strings.Join(s.rows, ";\n  "), s.name, coqStr(s.dflt))
	}
	var all []string
	for _, s := range sws {
		all = append(all, fmt.Sprintf("(%s, sw_%s, sw_%s_default)", coqStr(s.name), s.name, s.name))
	}
	fmt.Fprintf(&sb, "Definition switches : list (bytes * list (list bytes * bytes) * bytes) := [\n  %s].\n", strings.Join(all, ";\n  "))
	return sb.String()
}
