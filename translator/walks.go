package main

// Emitter for coq/Gen/Walks.v: what the Clean() methods say now.
//
//   clean_methods        : per Clean method (receiver struct, pointer receiver?) the ordered steps
//                          WTruncate field | WClean field | WDelegate KObject | WEachEntry | WUnrecognised "source" "file:line"
//   items_clean          : the steps of ItemCollection.Clean
//   clean_recipients_src : normalised source text of CleanRecipients
//   has_recipients       : which struct types (value / pointer form) satisfy the HasRecipients interface (go/types)
//
// A statement that matches no pattern is emitted as an explicit WUnrecognised entry, never dropped.

import (
	"fmt"
	"go/ast"
	"go/token"
	"go/types"
	"strings"
)

func (t *T) cleanSteps(fd *ast.FuncDecl, recv string) []string {
	var out []string
	for _, s := range fd.Body.List {
		// x.F = x.F[:0]
		if as, ok := s.(*ast.AssignStmt); ok && as.Tok == token.ASSIGN && len(as.Lhs) == 1 && len(as.Rhs) == 1 {
			if f, ok := selOn(as.Lhs[0], recv); ok {
				if sl, ok := as.Rhs[0].(*ast.SliceExpr); ok && sl.Low == nil && sl.Max == nil && sl.High != nil {
					if g, ok := selOn(sl.X, recv); ok && g == f {
						if bl, ok := sl.High.(*ast.BasicLit); ok && bl.Value == "0" {
							out = append(out, "WTruncate F_"+f)
							continue
						}
					}
				}
			}
		}
		// CleanRecipients(x.F)
		if es, ok := s.(*ast.ExprStmt); ok {
			if call, ok := es.X.(*ast.CallExpr); ok && isIdent(call.Fun, "CleanRecipients") && len(call.Args) == 1 {
				if f, ok := selOn(call.Args[0], recv); ok {
					out = append(out, "WClean F_"+f)
					continue
				}
			}
		}
		txt := t.src(s)
		// _ = OnObject(x, func(o *Object) error { o.Clean(); return nil })
		if txt == "_ = OnObject("+recv+", func(o *Object) error { o.Clean() return nil })" {
			out = append(out, "WDelegate KObject")
			continue
		}
		// for j, it := range i { i[j] = CleanRecipients(it) }
		if txt == "for j, it := range "+recv+" { "+recv+"[j] = CleanRecipients(it) }" {
			out = append(out, "WEachEntry")
			continue
		}
		out = append(out, t.unrec("WUnrecognised", s))
	}
	return out
}

func (t *T) genWalks() string {
	var sb strings.Builder
	sb.WriteString("From AP.Model Require Import Prelude Vocab Clean.\n\n")
	var methods []string
	items := []string{"WUnrecognised (B \"ItemCollection.Clean not found\") (B \"item_collection.go\")"}
	crSrc := "not found"
	for _, f := range t.pkg.Syntax {
		for _, d := range f.Decls {
			fd, ok := d.(*ast.FuncDecl)
			if !ok || fd.Body == nil {
				continue
			}
			if fd.Recv == nil {
				if fd.Name.Name == "CleanRecipients" {
					crSrc = t.src(fd.Type) + " " + t.src(fd.Body)
				}
				continue
			}
			if fd.Name.Name != "Clean" || len(fd.Recv.List) != 1 || len(fd.Recv.List[0].Names) != 1 {
				continue
			}
			recv := fd.Recv.List[0].Names[0].Name
			ptr := false
			ty := fd.Recv.List[0].Type
			if st, ok := ty.(*ast.StarExpr); ok {
				ptr = true
				ty = st.X
			}
			id, ok := ty.(*ast.Ident)
			if !ok {
				continue
			}
			steps := t.cleanSteps(fd, recv)
			if id.Name == "ItemCollection" && !ptr {
				items = steps
				continue
			}
			if k, ok := kindOf[id.Name]; ok {
				methods = append(methods, fmt.Sprintf("mkcleanfn %s %s [\n    %s]", k, cboolS(ptr), strings.Join(steps, ";\n    ")))
			} else {
				methods = append(methods, fmt.Sprintf("mkcleanfn KLink %s [\n    %s]", cboolS(ptr),
					fmt.Sprintf("WUnrecognised %s %s", coqStr("Clean method on "+id.Name), coqStr(t.pos(fd)))))
			}
		}
	}
	// deterministic order: by kind order, pointer receivers first
	var ordered []string
	for _, name := range kindOrder {
		for _, m := range methods {
			if strings.HasPrefix(m, "mkcleanfn "+kindOf[name]+" ") {
				ordered = append(ordered, m)
			}
		}
	}
	fmt.Fprintf(&sb, "Definition clean_methods : list cleanfn := [\n  %s].\n\n", strings.Join(ordered, ";\n  "))
	fmt.Fprintf(&sb, "Definition items_clean : list wstep := [\n  %s].\n\n", strings.Join(items, ";\n  "))
	fmt.Fprintf(&sb, "Definition clean_recipients_src : bytes :=\n  %s.\n\n", coqStr(crSrc))
	// HasRecipients implementers
	var has []string
	itemsHas := [2]bool{}
	if obj := t.pkg.Types.Scope().Lookup("HasRecipients"); obj != nil {
		if iface, ok := obj.Type().Underlying().(*types.Interface); ok {
			for _, name := range kindOrder {
				o := t.pkg.Types.Scope().Lookup(name)
				if o == nil {
					continue
				}
				if types.Implements(o.Type(), iface) {
					has = append(has, fmt.Sprintf("(%s, false)", kindOf[name]))
				}
				if types.Implements(types.NewPointer(o.Type()), iface) {
					has = append(has, fmt.Sprintf("(%s, true)", kindOf[name]))
				}
			}
			if o := t.pkg.Types.Scope().Lookup("ItemCollection"); o != nil {
				itemsHas[0] = types.Implements(o.Type(), iface)
				itemsHas[1] = types.Implements(types.NewPointer(o.Type()), iface)
			}
		}
	}
	fmt.Fprintf(&sb, "Definition has_recipients : list (kind * bool) := [\n  %s].\n\n", strings.Join(has, "; "))
	fmt.Fprintf(&sb, "Definition items_has_recipients : bool * bool := (%s, %s).\n", cboolS(itemsHas[0]), cboolS(itemsHas[1]))
	return sb.String()
}
