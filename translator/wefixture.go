package main

// A fixture for the write-effect emitter (writeeffects.go): a small package holding one function per SHAPE of
// write that property C12 cares about.  It is analysed on every run with the same code as the real package and
// emitted as `we_fixture` next to the real table; what each function must come out as is written down on the Coq
// side (Model/WriteEffInst.v, fixture_expect) and checked there (C12_translator_fixture).  So the classification
// the condition trusts is at least exhibited, on every run, on the shapes the property text names.

import (
	"fmt"
	"os"
	"path/filepath"

	"golang.org/x/tools/go/packages"
)

const weFixtureSrc = `package fixture

import (
	"bytes"
	"sort"
	"unsafe"
)

type T struct {
	F int
	S []int
	M map[string]int
	P *T
}

type I interface {
	Get() int
	Set(int)
}

var G int
var GS []int
var GP = &T{}

// ---- class (a): local variables and memory allocated by the call
func localOnly(n int) []int {
	s := make([]int, 0, n)
	for i := 0; i < n; i++ {
		s = append(s, i)
	}
	var t T
	t.F = 1
	p := &t
	p.F = 2
	m := map[string]int{}
	m["a"] = 1
	return s
}
func appendFresh(s []int) []int { c := append([]int(nil), s...); c[0] = 1; return c }
func (t T) valueRecvField(v int) int { t.F = v; return t.F }
func (t *T) readOnly() int { return t.F + len(t.S) + t.P.F }
func structCopy(t *T) int { c := *t; c.F = 1; return c.F }
func bufLocal(b []byte) []byte { var buf bytes.Buffer; buf.Write(b); return buf.Bytes() }
func sortCopy(s []int) { c := append([]int(nil), s...); sort.Ints(c) }

// ---- class (b): memory reachable from a parameter or receiver
func throughPointer(p *int) { *p = 1 }
func (t *T) setField(v int) { t.F = v }
func (t T) valueRecvSlice(v int) { t.S[0] = v }
func indexStore(s []int) { s[0] = 1 }
func resliceAppend(s []int) []int { s = s[:0]; return append(s, 1) }
func spliceOut(s []int, i int) []int { return append(s[:i], s[i+1:]...) }
func mapWrite(m map[string]int) { m["a"] = 1 }
func mapDelete(m map[string]int) { delete(m, "a") }
func copyInto(dst, src []int) { copy(dst, src) }
func deepField(t *T) { t.P.F = 1 }
func deepSlice(t *T) { t.S[0] = 1 }
func viaAlias(t *T) { q := t; q.F = 3 }
func viaStructCopy(t *T) { c := *t; c.S[0] = 2 }
func chanSend(c chan int) { c <- 1 }
func sortParam(s []int) { sort.Ints(s) }
func closureWrites(s []int) { f := func() { s[0] = 1 }; f() }

// ---- class (c): package-level variables
func globalWrite() { G = 1 }
func globalSlice() { GS[0] = 1 }
func globalPointee() { GP.F = 1 }
func globalPassed() { callee(GP) }

// ---- class (d): unknown memory
func unsafeInt(p uintptr) { *(*int)(unsafe.Pointer(p)) = 1 }

// ---- calls
func callee(p *T) { p.F = 1 }
func caller(t *T) { callee(t) }
func callerDeep(t *T) { callee(t.P) }
func callerFresh() { var t T; callee(&t) }
func (t *T) Set(v int) { t.F = v }
func (t *T) Get() int { return t.F }
func ifaceCall(i I) { i.Set(1) }
func callback(t *T, fn func(*T)) { fn(t) }
func withLocal(fn func(*T)) { var t T; fn(&t) }
func handsLiteral(t *T) int { r := 0; withLocal(func(x *T) { x.F = 1; r = t.F }); return r }

// a local container of things that came in, filled through a pointer-receiver method: the method writes its
// receiver (depth 0: the slice header, depth 1: the array), which here is the caller's own variable
type coll []*T

func (c *coll) add(x *T) { *c = append(*c, x) }
func localCollection(s []*T) int { var c coll; for _, x := range s { c.add(x) }; return len(c) }
func fillsArgument(c *coll, s []*T) { for _, x := range s { c.add(x) } }
func newT() *T { return &T{} }
func freshFromCallee() { t := newT(); t.F = 1 }
func first(s []*T) *T { return s[0] }
func writesReturnedElement(s []*T) { first(s).F = 1 }
`

// loadFixture type-checks the fixture in a scratch module (standard library imports only: works offline)
func loadFixture() (*packages.Package, error) {
	dir, err := os.MkdirTemp("", "wefixture")
	if err != nil {
		return nil, err
	}
	defer os.RemoveAll(dir)
	if err := os.WriteFile(filepath.Join(dir, "go.mod"), []byte("module fixture\n\ngo 1.21\n"), 0o644); err != nil {
		return nil, err
	}
	if err := os.WriteFile(filepath.Join(dir, "fixture.go"), []byte(weFixtureSrc), 0o644); err != nil {
		return nil, err
	}
	cfg := &packages.Config{
		Mode: packages.NeedTypes | packages.NeedSyntax | packages.NeedTypesInfo | packages.NeedName |
			packages.NeedFiles | packages.NeedImports | packages.NeedDeps | packages.NeedTypesSizes,
		Dir: dir,
		Env: append(os.Environ(), "GOFLAGS=-mod=mod", "GOWORK=off"),
	}
	pkgs, err := packages.Load(cfg, ".")
	if err != nil {
		return nil, err
	}
	if len(pkgs) != 1 || len(pkgs[0].Errors) > 0 {
		return nil, fmt.Errorf("fixture does not load: %v", pkgs[0].Errors)
	}
	return pkgs[0], nil
}
