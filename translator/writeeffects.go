package main

// Emitter for coq/Gen/WriteEffects.v: a static WRITE-EFFECT TABLE of the whole package (vocabulary:
// coq/Model/WriteEff.v), for property C12.
//
// For every function, method, function literal and synthetic wrapper of the package (SSA form,
// golang.org/x/tools/go/ssa, built for this package only - no other package's bodies are read):
//
//   * its WRITE statements (ssa Store, MapUpdate, Send, the builtins append / copy / delete / clear), each with
//     the ROOTS of the memory it may write to:
//        RLocal      a variable of this call or memory allocated by this call (local variable that had its
//                    address taken, composite literal, make, new, []byte(string), the fresh array of an append,
//                    the result of an external function that is listed as returning fresh memory)
//        RP i d      parameter i (the receiver is parameter 0; a variable x that a function literal captures is two
//                    pseudo-parameters after the declared ones: "captured &x" the variable, "captured x" its value)
//                    at depth d: the memory it points to (0), the memory that points to (1), anything deeper (2)
//        RGlobal g   a package-level variable (of this or another package) or memory reachable from it
//        RUnknown    memory of unknown origin (a pointer made from an integer, a select, ...)
//     so class (a) = [RLocal] only, (b) = some RP, (c) = some RGlobal, (d) = RUnknown or a WUnrec entry;
//   * its CALLS, each with the callee - a function of the table; an interface method with the package's
//     implementations; a function of another package by name, with the arguments it is ASSUMED to write through
//     (everything reachable from them: mask; only what they point to directly: shallow mask); a call through a
//     function value that came in as a parameter; a call through a package-level function variable, with its
//     initial value - and, per callee parameter, the roots of what the argument gives access to, level by level
//     (three lists: depth 0, 1, 2-and-deeper), in terms of the caller's roots.
//     Making a function literal (or using a function as a value) is listed as a call too (HowMake): if every use of
//     the literal is a direct call or hands it to a function of the package that does nothing with that parameter
//     but call it (or hand it on in the same way), the literal's parameters are bound to what that function calls
//     it with, seen from the call site; otherwise (it is stored, returned, captured, given to another package) to
//     everything reachable from the maker's parameters.  What it captures is bound where it is made.
//
// How the roots are found: a flow-insensitive, field-insensitive points-to analysis per function over abstract
// objects {allocation sites of this function, (parameter i, depth d), Global g, Unknown}, with the contents of
// local objects tracked (what has been stored into them), parameter regions chained by loads (depth 0 -> 1 -> 2 ->
// 2), Global / Unknown regions closed under loads, and function summaries - what a callee returns, what it stores
// into memory reachable from its parameters, and what the local objects that escape from it hold (its own
// allocation sites keep their identity in the summary; those of its callees are merged) - computed by a fixpoint
// over the package.  unsafe.Pointer conversions keep the roots.  Strings are immutable: they carry no roots.
//
// What is trusted (stated in Model/WriteEff.v and Props/C12.v as well): this classification; the list extSpecs
// below (which arguments a function of another package writes through, whether it keeps references to its
// arguments, whether its result is fresh); that interface values hold types of this package; reflection,
// encoding/gob and fmt calling back into the package only through methods that are entry points of the condition.
// The classification is exhibited on every run on the fixture of wefixture.go (emitted as fx_table, expectations on
// the Coq side).  WE_DUMP=<function> prints the points-to sets of one function, WE_TRACE=1 the fixpoint rounds.

import (
	"fmt"
	"go/token"
	"go/types"
	"os"
	"path/filepath"
	"sort"
	"strings"
	"sync"

	"golang.org/x/tools/go/packages"
	"golang.org/x/tools/go/ssa"
	"golang.org/x/tools/go/ssa/ssautil"
)

// ---------------------------------------------------------------- abstract objects

type objKind int

const (
	oSite  objKind = iota
	oParam         // parameter i at depth d: the memory it points to (0), what that memory points to (1), anything deeper (2)
	oGlobal
	oUnknown
)

type obj struct {
	k objKind
	i int    // site id / parameter index
	d int    // parameter: depth
	g string // global name
}

const maxDepth = 2 // levels per parameter: 0, 1, 2-and-deeper

var freshObj = obj{k: oSite, i: -1} // in summaries: "memory allocated by the callee"

type objset map[obj]struct{}

func (s objset) add(o obj) bool {
	if _, ok := s[o]; ok {
		return false
	}
	s[o] = struct{}{}
	return true
}

func (s objset) addAll(t objset) bool {
	ch := false
	for o := range t {
		if s.add(o) {
			ch = true
		}
	}
	return ch
}

func (s objset) sorted() []obj {
	out := make([]obj, 0, len(s))
	for o := range s {
		out = append(out, o)
	}
	sort.Slice(out, func(i, j int) bool {
		a, b := out[i], out[j]
		if a.k != b.k {
			return a.k < b.k
		}
		if a.i != b.i {
			return a.i < b.i
		}
		if a.d != b.d {
			return a.d < b.d
		}
		return a.g < b.g
	})
	return out
}

// ---------------------------------------------------------------- external functions

// extSpec: what a function of another package is ASSUMED to do with its arguments (receiver = argument 0).
//
//	writes  - indexes of the arguments it may write through (memory reachable from them)
//	retains - it may store references to (memory reachable from) its arguments into the memory it writes
//	fresh   - its result does not alias its arguments (otherwise: the result may alias anything reachable from them)
//
// A function that is not listed gets the default: writes through every argument, retains, result aliases; it is
// emitted with its mask, and the Coq allow-list (Model/WriteEff.v, ext_allowed) must hold the same (name, mask)
// pair for the call to be accepted under a read-only entry point.
type extSpec struct {
	writes  []int
	shallow []int // written too, but only the memory the argument points to directly (the array of a slice that is sorted)
	retains bool
	fresh   bool
}

var extSpecs = map[string]extSpec{
	// bytes.Buffer: the buffer copies what it is given
	"(*bytes.Buffer).Write":          {writes: []int{0}},
	"(*bytes.Buffer).WriteByte":      {writes: []int{0}},
	"(*bytes.Buffer).WriteRune":      {writes: []int{0}},
	"(*bytes.Buffer).WriteString":    {writes: []int{0}},
	"(*bytes.Buffer).Reset":          {writes: []int{0}},
	"(*bytes.Buffer).Grow":           {writes: []int{0}},
	"(*bytes.Buffer).Truncate":       {writes: []int{0}},
	"(*bytes.Buffer).Bytes":          {},
	"(*bytes.Buffer).Len":            {},
	"(*bytes.Buffer).String":         {},
	"bytes.NewBuffer":                {},
	"bytes.NewReader":                {},
	"(*strings.Builder).WriteString": {writes: []int{0}},
	"(*strings.Builder).WriteByte":   {writes: []int{0}},
	"(*strings.Builder).WriteRune":   {writes: []int{0}},
	"(*strings.Builder).Write":       {writes: []int{0}},
	"(*strings.Builder).String":      {},
	"(*strings.Builder).Len":         {},
	// bytes: read-only on their arguments; results that are slices are copies or sub-slices
	"bytes.Equal":       {},
	"bytes.EqualFold":   {},
	"bytes.Compare":     {},
	"bytes.Contains":    {},
	"bytes.ContainsAny": {},
	"bytes.HasPrefix":   {},
	"bytes.HasSuffix":   {},
	"bytes.Index":       {},
	"bytes.IndexByte":   {},
	"bytes.IndexAny":    {},
	"bytes.LastIndex":   {},
	"bytes.Count":       {},
	"bytes.ReplaceAll":  {fresh: true},
	"bytes.Replace":     {fresh: true},
	"bytes.ToLower":     {fresh: true},
	"bytes.ToUpper":     {fresh: true},
	"bytes.Join":        {fresh: true},
	"bytes.Repeat":      {fresh: true},
	"bytes.Clone":       {fresh: true},
	"bytes.Split":       {}, // sub-slices of the argument
	"bytes.Trim":        {},
	"bytes.TrimSpace":   {},
	"bytes.TrimPrefix":  {},
	"bytes.TrimSuffix":  {},
	"bytes.TrimLeft":    {},
	"bytes.TrimRight":   {},
	"bytes.Fields":      {},
	// strconv / unicode: numbers and strings; Append* write into (the spare capacity of) their first argument
	"strconv.AppendInt":               {shallow: []int{0}},
	"strconv.AppendUint":              {shallow: []int{0}},
	"strconv.AppendFloat":             {shallow: []int{0}},
	"strconv.AppendQuote":             {shallow: []int{0}},
	"strconv.AppendBool":              {shallow: []int{0}},
	"unicode/utf8.DecodeRune":         {},
	"unicode/utf8.DecodeLastRune":     {},
	"unicode/utf8.DecodeRuneInString": {},
	"unicode/utf8.Valid":              {},
	"unicode/utf8.RuneLen":            {},
	"unicode/utf8.EncodeRune":         {shallow: []int{0}},
	"unicode/utf8.AppendRune":         {shallow: []int{0}},
	// fmt: formats its operands (through their Format / String / Error / GoString methods, found by reflection -
	// the package's own are read-only entry points of the condition); writes only to the writer / state
	"fmt.Sprintf":    {fresh: true},
	"fmt.Sprint":     {fresh: true},
	"fmt.Sprintln":   {fresh: true},
	"fmt.Errorf":     {fresh: true}, // %w keeps the wrapped error (an immutable value as far as this package goes)
	"fmt.Fprintf":    {writes: []int{0}},
	"fmt.Fprint":     {writes: []int{0}},
	"fmt.Fprintln":   {writes: []int{0}},
	"fmt.Sscanf":     {writes: []int{2}}, // the variadic destination pointers
	"io.WriteString": {writes: []int{0}},
	// sort: in place on the first argument
	"sort.Slice":          {shallow: []int{0}},
	"sort.SliceStable":    {shallow: []int{0}},
	"sort.Sort":           {shallow: []int{0}},
	"sort.Stable":         {shallow: []int{0}},
	"sort.Strings":        {shallow: []int{0}},
	"sort.Ints":           {shallow: []int{0}},
	"sort.Reverse":        {}, // a view of the argument
	"(sort.IntSlice).Len": {},
	"slices.Sort":         {shallow: []int{0}},
	"slices.SortFunc":     {shallow: []int{0}},
	"slices.Reverse":      {shallow: []int{0}},
	"slices.Contains":     {},
	"slices.Index":        {},
	"slices.Equal":        {},
	"slices.Clone":        {fresh: true},
	// encoding/gob: the encoder writes to its own buffer / writer (argument 0), reads the value (through
	// reflection and the GobEncode / MarshalBinary methods of what it meets); the decoder reads its reader and
	// writes through the destination pointer
	"encoding/gob.NewEncoder":        {},
	"(*encoding/gob.Encoder).Encode": {writes: []int{0}},
	"encoding/gob.NewDecoder":        {},
	"(*encoding/gob.Decoder).Decode": {writes: []int{0, 1}},
	// encoding/json
	"encoding/json.Marshal":   {fresh: true},
	"encoding/json.Unmarshal": {writes: []int{1}},
	"encoding/json.Valid":     {},
	// time: values; Format / String allocate
	"(time.Time).Format":           {fresh: true},
	"(time.Time).UTC":              {},
	"(time.Time).IsZero":           {},
	"(time.Time).Year":             {},
	"(time.Time).Equal":            {},
	"(time.Time).Before":           {},
	"(time.Time).After":            {},
	"(time.Time).Sub":              {},
	"(time.Time).Truncate":         {},
	"(time.Time).Unix":             {},
	"(time.Time).UnixNano":         {},
	"(time.Time).String":           {fresh: true},
	"(time.Time).MarshalText":      {fresh: true},
	"(time.Time).MarshalBinary":    {fresh: true},
	"(time.Time).GobEncode":        {fresh: true},
	"(time.Time).AppendFormat":     {writes: []int{1}},
	"(*time.Time).UnmarshalText":   {writes: []int{0}},
	"(*time.Time).UnmarshalBinary": {writes: []int{0}},
	"(*time.Time).GobDecode":       {writes: []int{0}},
	"(time.Duration).Seconds":      {},
	"(time.Duration).String":       {fresh: true},
	"time.Parse":                   {fresh: true},
	"time.ParseDuration":           {},
	// net/url, path: parse a string into fresh values
	"net/url.Parse":              {fresh: true},
	"net/url.ParseRequestURI":    {fresh: true},
	"net/url.ParseQuery":         {fresh: true},
	"(*net/url.URL).String":      {fresh: true},
	"(*net/url.URL).Query":       {fresh: true},
	"(*net/url.URL).Hostname":    {},
	"(*net/url.URL).Port":        {},
	"(*net/url.URL).IsAbs":       {},
	"(*net/url.URL).EscapedPath": {},
	"(*net/url.URL).RequestURI":  {},
	"(net/url.Values).Encode":    {fresh: true},
	"(net/url.Values).Get":       {},
	"path.Clean":                 {},
	"path.Join":                  {},
	"path.Base":                  {},
	"path/filepath.Split":        {},
	"path/filepath.Clean":        {},
	"path/filepath.Join":         {},
	"path/filepath.Base":         {},
	"path/filepath.Dir":          {},
	// errors
	"errors.New":                                {fresh: true},
	"errors.Is":                                 {},
	"errors.As":                                 {writes: []int{1}},
	"github.com/go-ap/errors.Newf":              {fresh: true},
	"github.com/go-ap/errors.Annotatef":         {fresh: true},
	"github.com/go-ap/errors.NotValidf":         {fresh: true},
	"github.com/go-ap/errors.NewNotValid":       {fresh: true},
	"github.com/go-ap/errors.NotImplementedf":   {fresh: true},
	"github.com/go-ap/errors.MethodNotAllowedf": {fresh: true},
	// reflect: used by the package to look at a value (kind, nil-ness) and, on the decoding side, to build one
	"reflect.ValueOf":            {},
	"reflect.TypeOf":             {},
	"(reflect.Value).Kind":       {},
	"(reflect.Value).IsNil":      {},
	"(reflect.Value).IsValid":    {},
	"(reflect.Value).IsZero":     {},
	"(reflect.Value).Type":       {},
	"(reflect.Value).Elem":       {},
	"(reflect.Value).Interface":  {},
	"(reflect.Value).Len":        {},
	"(reflect.Value).Index":      {},
	"(reflect.Value).Pointer":    {},
	"(reflect.Value).CanConvert": {},
	"(reflect.Value).Convert":    {},
	"(reflect.Value).CanAddr":    {},
	"(reflect.Value).Addr":       {},
	"(*reflect.rtype).Kind":      {},
	"(*reflect.rtype).Elem":      {},
	"(*reflect.rtype).Name":      {},
	"(*reflect.rtype).String":    {},
	// fastjson: a parser owns the buffers its values point into; values are read-only views
	"(*github.com/valyala/fastjson.Parser).ParseBytes":    {writes: []int{0}},
	"(*github.com/valyala/fastjson.Parser).Parse":         {writes: []int{0}},
	"github.com/valyala/fastjson.ParseBytes":              {fresh: true},
	"github.com/valyala/fastjson.Parse":                   {fresh: true},
	"(*github.com/valyala/fastjson.Value).Get":            {},
	"(*github.com/valyala/fastjson.Value).GetStringBytes": {},
	"(*github.com/valyala/fastjson.Value).GetObject":      {},
	"(*github.com/valyala/fastjson.Value).GetArray":       {},
	"(*github.com/valyala/fastjson.Value).GetFloat64":     {},
	"(*github.com/valyala/fastjson.Value).GetInt":         {},
	"(*github.com/valyala/fastjson.Value).GetInt64":       {},
	"(*github.com/valyala/fastjson.Value).GetUint":        {},
	"(*github.com/valyala/fastjson.Value).GetBool":        {},
	"(*github.com/valyala/fastjson.Value).Type":           {},
	"(*github.com/valyala/fastjson.Value).Exists":         {},
	"(*github.com/valyala/fastjson.Value).String":         {fresh: true},
	"(*github.com/valyala/fastjson.Value).MarshalTo":      {writes: []int{1}},
	"(*github.com/valyala/fastjson.Value).StringBytes":    {},
	"(*github.com/valyala/fastjson.Value).Object":         {},
	"(*github.com/valyala/fastjson.Value).Array":          {},
	"(*github.com/valyala/fastjson.Value).Float64":        {},
	"(*github.com/valyala/fastjson.Value).Int":            {},
	"(*github.com/valyala/fastjson.Value).Int64":          {},
	"(*github.com/valyala/fastjson.Value).Uint":           {},
	"(*github.com/valyala/fastjson.Value).Bool":           {},
	"(*github.com/valyala/fastjson.Object).Visit":         {},
	"(*github.com/valyala/fastjson.Object).Get":           {},
	"(*github.com/valyala/fastjson.Object).Len":           {},
	"(github.com/valyala/fastjson.Type).String":           {},
	// jsonld helpers of the same author used by the encoders
	"github.com/go-ap/jsonld.IRI.String": {},
	"github.com/go-ap/jsonld.Marshal":    {fresh: true}, // calls the MarshalJSON methods (read-only entry points of the condition)
	// go-xsd-duration
	"github.com/rickb777/date/period.Parse":         {fresh: true},
	"git.sr.ht/~mariusor/go-xsd-duration.Marshal":   {fresh: true},
	"git.sr.ht/~mariusor/go-xsd-duration.Unmarshal": {writes: []int{1}},
}

var (
	extOnce sync.Once
	extNorm = map[string]extSpec{}
)

// strings.* and strconv.* (other than the Append family) and unicode.* take and return strings / numbers only
func extDefaultPure(name string) bool {
	for _, p := range []string{"strings.", "strconv.", "unicode.", "math.", "unicode/utf8."} {
		if strings.HasPrefix(name, p) && !strings.Contains(name, "Append") {
			return true
		}
	}
	return false
}

func lookupExt(name string, nargs int) (extSpec, bool) {
	extOnce.Do(func() {
		for k, v := range extSpecs {
			extNorm[normExt(k)] = v
		}
	})
	if s, ok := extNorm[name]; ok {
		return s, true
	}
	if extDefaultPure(name) {
		return extSpec{}, true
	}
	all := make([]int, nargs)
	for i := range all {
		all[i] = i
	}
	return extSpec{writes: all, retains: true}, false
}

// ---------------------------------------------------------------- per function state

type writeRec struct {
	pos    token.Pos
	kind   string // Coq constructor of wkind
	target objset
	value  objset // what is stored (reachable), for the summaries
}

type calleeRec struct {
	kind   string // "fun" "iface" "ext" "callback" "globalfn" "dynamic"
	fns    []*fnInfo
	name   string // iface method / ext name / global name
	mask   []int
	smask  []int
	listed bool
	via    objset // callback: where the function value came from
}

// per callee parameter: the objects the argument points to (level 0), the objects those point to (level 1), and
// everything reachable from there (level 2)
type argRoots struct {
	lv [maxDepth + 1]objset
}

func (a argRoots) all() objset {
	out := objset{}
	for _, l := range a.lv {
		out.addAll(l)
	}
	return out
}

func (a argRoots) empty() bool {
	for _, l := range a.lv {
		if len(l) > 0 {
			return false
		}
	}
	return true
}

func sameAll(s objset) argRoots {
	var a argRoots
	for d := range a.lv {
		a.lv[d] = s
	}
	return a
}

type callRec struct {
	pos    token.Pos
	how    string // HowCall HowDefer HowGo HowMake
	callee calleeRec
	args   []argRoots
}

type fnInfo struct {
	fn      *ssa.Function
	idx     int
	name    string
	recv    string
	ptrRecv bool
	np      int // parameters
	nfv     int // captured variables
	pts     map[ssa.Value]objset
	cont    map[int]objset
	sites   map[ssa.Instruction]int
	sitesX  map[string]int
	orig    map[int]bool // allocation sites of this function itself (not instances of a callee's)
	esc     objset       // local objects that were returned or stored into memory that is not local
	nsites  int
	// summary, in terms of Param / Global / Unknown / freshObj
	retDirect objset
	// function parameters that are only ever called or handed on to a parameter of the same kind (cbSimple), and
	// the arguments they are called with, in terms of this function's roots (sites collapsed to freshObj)
	cbSimple map[int]bool
	cbInv    map[int]map[string][]argRoots
	retFns   map[*ssa.Function]bool               // function literals / functions this one may return
	fsets    map[ssa.Value]map[*ssa.Function]bool // function values known to be one of these
	stores   map[[2]obj]struct{}
	writes   []writeRec
	calls    []callRec
}

type weState struct {
	fset   *token.FileSet
	prog   *ssa.Program
	pkg    *ssa.Package
	infos  map[*ssa.Function]*fnInfo
	order  []*fnInfo
	change bool
	final  bool
	ginit  map[string]*ssa.Function // package-level function variable -> its initial value, when that is a function
}

func hasRefs(t types.Type) bool { return hasRefsD(t, 0) }

func hasRefsD(t types.Type, d int) bool {
	if d > 12 {
		return true
	}
	switch u := types.Unalias(t).(type) {
	case *types.Basic:
		return u.Kind() == types.UnsafePointer
	case *types.Pointer, *types.Slice, *types.Map, *types.Chan, *types.Signature, *types.Interface, *types.TypeParam:
		return true
	case *types.Struct:
		for i := 0; i < u.NumFields(); i++ {
			if hasRefsD(u.Field(i).Type(), d+1) {
				return true
			}
		}
		return false
	case *types.Array:
		return hasRefsD(u.Elem(), d+1)
	case *types.Tuple:
		for i := 0; i < u.Len(); i++ {
			if hasRefsD(u.At(i).Type(), d+1) {
				return true
			}
		}
		return false
	case *types.Named:
		return hasRefsD(u.Underlying(), d+1)
	}
	return true
}

// elements of a slice / array / string that can hold references (bytes and strings cannot)
func hasFuncType(t types.Type) bool {
	_, ok := types.Unalias(t).Underlying().(*types.Signature)
	return ok
}

func elemHasRefs(t types.Type) bool {
	switch u := types.Unalias(t).Underlying().(type) {
	case *types.Slice:
		return hasRefs(u.Elem())
	case *types.Array:
		return hasRefs(u.Elem())
	case *types.Pointer:
		return elemHasRefs(u.Elem())
	case *types.Basic:
		return false
	}
	return true
}

func (w *weState) canon(f *ssa.Function) *ssa.Function {
	if f == nil {
		return nil
	}
	if o := f.Origin(); o != nil {
		return o
	}
	return f
}

// ours: a function with a body that belongs to the analysed package (declared in it, a literal inside one, or a
// synthetic wrapper / bound method / instance around one)
func (w *weState) ours(f *ssa.Function) bool {
	f = w.canon(f)
	if f == nil || f.Blocks == nil {
		return false
	}
	for p := f; p != nil; p = p.Parent() {
		if p.Pkg == w.pkg {
			return true
		}
	}
	if f.Pkg == nil && f.Synthetic != "" {
		// wrapper: belongs to us when the method it wraps does
		if o := f.Object(); o != nil && o.Pkg() == w.pkg.Pkg {
			return true
		}
		return strings.Contains(f.String(), w.pkg.Pkg.Path())
	}
	return false
}

func (w *weState) info(f *ssa.Function) *fnInfo {
	f = w.canon(f)
	if fi, ok := w.infos[f]; ok {
		return fi
	}
	fi := &fnInfo{fn: f, np: len(f.Params), nfv: len(f.FreeVars), pts: map[ssa.Value]objset{}, cont: map[int]objset{},
		sites: map[ssa.Instruction]int{}, sitesX: map[string]int{}, orig: map[int]bool{}, esc: objset{}, cbSimple: map[int]bool{}, cbInv: map[int]map[string][]argRoots{}, retFns: map[*ssa.Function]bool{}, fsets: map[ssa.Value]map[*ssa.Function]bool{}, retDirect: objset{}, stores: map[[2]obj]struct{}{}}
	fi.name = f.Name()
	if r := f.Signature.Recv(); r != nil {
		rt := r.Type()
		if p, ok := types.Unalias(rt).(*types.Pointer); ok {
			fi.ptrRecv = true
			rt = p.Elem()
		}
		fi.recv = types.TypeString(rt, func(*types.Package) string { return "" })
	} else if f.Parent() != nil {
		fi.name = strings.TrimPrefix(f.RelString(w.pkg.Pkg), "")
	}
	if f.Synthetic != "" && f.Parent() == nil {
		fi.name = f.RelString(w.pkg.Pkg)
		fi.recv = ""
	}
	fi.name = strings.ReplaceAll(normExt(fi.name), "(*", "*")
	w.infos[f] = fi
	w.order = append(w.order, fi)
	return fi
}

// discover every function of the package
func (w *weState) discover() {
	var roots []*ssa.Function
	for _, m := range w.pkg.Members {
		switch m := m.(type) {
		case *ssa.Function:
			roots = append(roots, m)
		case *ssa.Type:
			nt, ok := m.Type().(*types.Named)
			if !ok {
				continue
			}
			for i := 0; i < nt.NumMethods(); i++ {
				if f := w.prog.FuncValue(nt.Method(i)); f != nil {
					roots = append(roots, f)
				}
			}
		}
	}
	work := roots
	for len(work) > 0 {
		f := w.canon(work[len(work)-1])
		work = work[:len(work)-1]
		if f == nil || f.Blocks == nil {
			continue
		}
		if _, ok := w.infos[f]; ok {
			continue
		}
		if !w.ours(f) {
			continue
		}
		w.info(f)
		work = append(work, f.AnonFuncs...)
		for _, b := range f.Blocks {
			for _, ins := range b.Instrs {
				for _, op := range ins.Operands(nil) {
					if op == nil || *op == nil {
						continue
					}
					switch v := (*op).(type) {
					case *ssa.Function:
						work = append(work, v)
					case *ssa.MakeClosure:
						if cf, ok := v.Fn.(*ssa.Function); ok {
							work = append(work, cf)
						}
					}
				}
			}
		}
	}
	sort.Slice(w.order, func(i, j int) bool { return w.order[i].key() < w.order[j].key() })
	for i, fi := range w.order {
		fi.idx = i
	}
}

func (fi *fnInfo) key() string {
	if fi.recv != "" {
		p := ""
		if fi.ptrRecv {
			p = "*"
		}
		return fi.recv + "." + fi.name + " " + p
	}
	return fi.name
}

// ---------------------------------------------------------------- points-to

func (w *weState) valPts(fi *fnInfo, v ssa.Value) objset {
	switch x := v.(type) {
	case nil:
		return nil
	case *ssa.Const, *ssa.Function, *ssa.Builtin:
		return nil
	case *ssa.Global:
		return objset{obj{k: oGlobal, g: x.RelString(w.pkg.Pkg)}: {}}
	case *ssa.Parameter:
		if !hasRefs(x.Type()) {
			return nil
		}
		for i, p := range fi.fn.Params {
			if p == x {
				return objset{obj{k: oParam, i: i}: {}}
			}
		}
		return objset{obj{k: oUnknown}: {}}
	case *ssa.FreeVar:
		for i, p := range fi.fn.FreeVars {
			if p == x {
				return objset{obj{k: oParam, i: fi.np + 2*i}: {}} // the captured variable's cell
			}
		}
		return objset{obj{k: oUnknown}: {}}
	}
	return fi.pts[v]
}

func (w *weState) setPts(fi *fnInfo, v ssa.Value, s objset) {
	if len(s) == 0 {
		return
	}
	if !hasRefs(v.Type()) {
		return
	}
	cur := fi.pts[v]
	if cur == nil {
		cur = objset{}
		fi.pts[v] = cur
	}
	if cur.addAll(s) {
		w.change = true
	}
}

func (w *weState) site(fi *fnInfo, ins ssa.Instruction, tag string) obj {
	if tag == "" {
		if id, ok := fi.sites[ins]; ok {
			return obj{k: oSite, i: id}
		}
		fi.sites[ins] = fi.nsites
		fi.orig[fi.nsites] = true
		fi.nsites++
		return obj{k: oSite, i: fi.sites[ins]}
	}
	key := fmt.Sprintf("%p/%s", ins, tag)
	if id, ok := fi.sitesX[key]; ok {
		return obj{k: oSite, i: id}
	}
	fi.sitesX[key] = fi.nsites
	fi.nsites++
	return obj{k: oSite, i: fi.sitesX[key]}
}

func (w *weState) contentsOf(fi *fnInfo, o obj) objset {
	switch o.k {
	case oSite:
		return fi.cont[o.i]
	case oParam:
		if o.i >= fi.np && (o.i-fi.np)%2 == 0 {
			// a captured variable: cell -> value -> what the value reaches
			return objset{obj{k: oParam, i: o.i + 1}: {}}
		}
		d := o.d + 1
		if d > maxDepth {
			d = maxDepth
		}
		return objset{obj{k: oParam, i: o.i, d: d}: {}}
	}
	return objset{o: {}}
}

// the levels of what the objects of p give access to
func (w *weState) levels(fi *fnInfo, p objset) argRoots {
	var a argRoots
	cur := objset{}
	cur.addAll(p)
	for d := 0; d < maxDepth; d++ {
		a.lv[d] = cur
		cur = w.load(fi, cur)
	}
	a.lv[maxDepth] = w.reach(fi, cur)
	return a
}

// the two pseudo-parameters of a captured variable, bound to the cell(s) c of the enclosing function
func (w *weState) captured(fi *fnInfo, c objset) (argRoots, argRoots) {
	var cell argRoots
	cell.lv[0] = objset{}
	cell.lv[0].addAll(c)
	return cell, w.levels(fi, w.load(fi, c))
}

func (w *weState) load(fi *fnInfo, s objset) objset {
	out := objset{}
	for o := range s {
		out.addAll(w.contentsOf(fi, o))
	}
	return out
}

func (w *weState) storeInto(fi *fnInfo, targets objset, val objset) {
	for o := range targets {
		if o.k != oSite || len(val) == 0 {
			continue
		}
		c := fi.cont[o.i]
		if c == nil {
			c = objset{}
			fi.cont[o.i] = c
		}
		if c.addAll(val) {
			w.change = true
		}
	}
}

// everything reachable from the objects of s (s included)
func (w *weState) reach(fi *fnInfo, s objset) objset {
	out := objset{}
	var work []obj
	for o := range s {
		if out.add(o) {
			work = append(work, o)
		}
	}
	for len(work) > 0 {
		o := work[len(work)-1]
		work = work[:len(work)-1]
		for c := range w.contentsOf(fi, o) {
			if out.add(c) {
				work = append(work, c)
			}
		}
	}
	return out
}

func nonLocal(s objset) objset {
	out := objset{}
	for o := range s {
		if o.k != oSite {
			out.add(o)
		}
	}
	return out
}

func (w *weState) recordWrite(fi *fnInfo, pos token.Pos, kind string, target, val objset) {
	if len(target) == 0 {
		return
	}
	rv := w.reach(fi, val)
	// summary: references stored into non-local memory (what the stored local objects hold is exported by
	// exportEscaping at the end of the sweep)
	for t := range target {
		if t.k == oSite {
			continue
		}
		for v := range val {
			w.addStore(fi, t, v)
		}
	}
	if w.final {
		if pos == token.NoPos {
			pos = fi.fn.Pos()
		}
		fi.writes = append(fi.writes, writeRec{pos: pos, kind: kind, target: target, value: rv})
	}
}

// how a local object is named in this function's summary: its own allocation sites keep their identity, the
// instances of its callees' sites are merged into one ("memory allocated further down")
func (w *weState) export(fi *fnInfo, o obj) obj {
	if o.k == oSite && !fi.orig[o.i] {
		return freshObj
	}
	return o
}

func (w *weState) addStore(fi *fnInfo, t, v obj) {
	if v.k == oSite && v.i >= 0 {
		if fi.esc.add(v) {
			w.change = true
		}
	}
	k := [2]obj{w.export(fi, t), w.export(fi, v)}
	if _, ok := fi.stores[k]; !ok {
		fi.stores[k] = struct{}{}
		w.change = true
	}
}

// the contents of every local object that escapes (returned, or stored into memory that is not local) are part
// of the summary
func (w *weState) exportEscaping(fi *fnInfo) {
	for o := range w.reach(fi, fi.esc) {
		if o.k != oSite {
			continue
		}
		for c := range fi.cont[o.i] {
			k := [2]obj{w.export(fi, o), w.export(fi, c)}
			if _, ok := fi.stores[k]; !ok {
				fi.stores[k] = struct{}{}
				w.change = true
			}
		}
	}
}

// a callee-side summary object seen from the call site ins of fi
func (w *weState) substS(fi *fnInfo, ins ssa.Instruction, callee *fnInfo, o obj, args []argRoots) objset {
	if o.k == oSite {
		if o.i < 0 {
			return objset{w.site(fi, ins, "ret:"+callee.key()): {}}
		}
		return objset{w.site(fi, ins, fmt.Sprintf("cs:%s/%d", callee.key(), o.i)): {}}
	}
	return w.subst(fi, o, args, freshObj)
}

// ---------------------------------------------------------------- calls

// substitute a callee-side object into the caller's frame
func (w *weState) subst(fi *fnInfo, o obj, args []argRoots, site obj) objset {
	switch o.k {
	case oParam:
		if o.i < len(args) && o.d <= maxDepth {
			if l := args[o.i].lv[o.d]; l != nil {
				return l
			}
			return objset{}
		}
		return objset{obj{k: oUnknown}: {}}
	case oSite:
		return objset{site: {}}
	}
	return objset{o: {}}
}

func (w *weState) applySummary(fi *fnInfo, ins ssa.Instruction, callee *fnInfo, args []argRoots, res objset) {
	for o := range callee.retDirect {
		res.addAll(w.substS(fi, ins, callee, o, args))
	}
	for st := range callee.stores {
		tg := w.substS(fi, ins, callee, st[0], args)
		vl := w.substS(fi, ins, callee, st[1], args)
		w.storeInto(fi, tg, vl)
		// where the store lands in memory that is not local to us it is part of OUR summary as well
		for t := range tg {
			if t.k == oSite {
				continue
			}
			for v := range vl {
				w.addStore(fi, t, v)
			}
		}
	}
}

func (w *weState) extName(f *ssa.Function) string {
	return normExt(f.String())
}

// "(*bytes.Buffer).Write" -> "*bytes.Buffer.Write", "(time.Time).Format" -> "time.Time.Format"
// (no parenthesis-star in the Coq strings: the comment-aware scripts of the framework read it as a comment opener)
func normExt(s string) string {
	if strings.HasPrefix(s, "(") {
		if i := strings.Index(s, ")."); i > 0 {
			return s[1:i] + s[i+1:]
		}
	}
	return s
}

func (w *weState) implementations(recvT types.Type, m *types.Func) []*fnInfo {
	var out []*fnInfo
	seen := map[*fnInfo]bool{}
	iface, _ := recvT.Underlying().(*types.Interface)
	if tp, ok := types.Unalias(recvT).(*types.TypeParam); ok {
		iface, _ = tp.Constraint().Underlying().(*types.Interface)
	}
	scope := w.pkg.Pkg.Scope()
	names := scope.Names()
	sort.Strings(names)
	for _, n := range names {
		tn, ok := scope.Lookup(n).(*types.TypeName)
		if !ok || tn.IsAlias() {
			continue
		}
		nt, ok := tn.Type().(*types.Named)
		if !ok || types.IsInterface(nt) || nt.TypeParams().Len() > 0 {
			continue
		}
		for _, rt := range []types.Type{nt, types.NewPointer(nt)} {
			if iface != nil && !types.Implements(rt, iface) {
				continue
			}
			sel := w.prog.MethodSets.MethodSet(rt).Lookup(m.Pkg(), m.Name())
			if sel == nil {
				continue
			}
			fo, ok := sel.Obj().(*types.Func)
			if !ok {
				continue
			}
			f := w.prog.FuncValue(fo)
			if f == nil || !w.ours(f) {
				continue
			}
			ci := w.info(f)
			if !seen[ci] {
				seen[ci] = true
				out = append(out, ci)
			}
		}
	}
	return out
}

func (w *weState) allOurs(fs map[*ssa.Function]bool) bool {
	for f := range fs {
		if !w.ours(f) {
			return false
		}
	}
	return true
}

func (w *weState) allParamRoots(fi *fnInfo) objset {
	out := objset{}
	for i, p := range fi.fn.Params {
		if hasRefs(p.Type()) {
			for d := 0; d <= maxDepth; d++ {
				out.add(obj{k: oParam, i: i, d: d})
			}
		}
	}
	for i := range fi.fn.FreeVars {
		out.add(obj{k: oParam, i: fi.np + 2*i})
		for d := 0; d <= maxDepth; d++ {
			out.add(obj{k: oParam, i: fi.np + 2*i + 1, d: d})
		}
	}
	return out
}

// ---------------------------------------------------------------- function parameters that are only called

func stripCT(v ssa.Value) ssa.Value {
	for {
		ct, ok := v.(*ssa.ChangeType)
		if !ok {
			return v
		}
		v = ct.X
	}
}

type cbForward struct {
	h *fnInfo
	j int
}

// uses of a function-typed value v inside fi: true when every use is a call of v, a nil test, or handing v to a
// parameter of a function of the package (those are returned); anything else (stored, captured, returned, given
// to another package) makes it false
func (w *weState) cbUses(fi *fnInfo, v ssa.Value, fw *[]cbForward) bool {
	refs := v.Referrers()
	if refs == nil {
		return false
	}
	for _, r := range *refs {
		switch x := r.(type) {
		case *ssa.DebugRef:
		case *ssa.BinOp:
			if x.Op != token.EQL && x.Op != token.NEQ {
				return false
			}
		case *ssa.ChangeType:
			if !w.cbUses(fi, x, fw) {
				return false
			}
		case ssa.CallInstruction:
			cc := x.Common()
			if _, isGo := r.(*ssa.Go); isGo {
				return false
			}
			inArgs := false
			for _, a := range cc.Args {
				if a == v {
					inArgs = true
				}
			}
			if !inArgs {
				if cc.Value != v {
					return false
				}
				continue // a call of v
			}
			if cc.Value == v || cc.IsInvoke() {
				return false
			}
			sc := cc.StaticCallee()
			if sc == nil || !w.ours(sc) {
				return false
			}
			if _, isClosure := cc.Value.(*ssa.MakeClosure); isClosure {
				return false
			}
			h := w.info(sc)
			for j, a := range cc.Args {
				if a == v {
					*fw = append(*fw, cbForward{h, j})
				}
			}
		default:
			return false
		}
	}
	return true
}

// greatest fixpoint: a parameter is simple when its uses are, and the parameters it is handed to are
func (w *weState) computeCbSimple() {
	fwd := map[*fnInfo]map[int][]cbForward{}
	for i := 0; i < len(w.order); i++ {
		fi := w.order[i]
		fwd[fi] = map[int][]cbForward{}
		for k, p := range fi.fn.Params {
			if !hasFuncType(p.Type()) {
				continue
			}
			var fw []cbForward
			if w.cbUses(fi, p, &fw) {
				fi.cbSimple[k] = true
				fwd[fi][k] = fw
			}
		}
	}
	for changed := true; changed; {
		changed = false
		for _, fi := range w.order {
			for k := range fi.cbSimple {
				if !fi.cbSimple[k] {
					continue
				}
				for _, f := range fwd[fi][k] {
					if !f.h.cbSimple[f.j] {
						fi.cbSimple[k] = false
						changed = true
					}
				}
			}
		}
	}
}

func paramIndex(fi *fnInfo, v ssa.Value) int {
	v = stripCT(v)
	for k, p := range fi.fn.Params {
		if ssa.Value(p) == v {
			return k
		}
	}
	return -1
}

func collapse(s objset) objset {
	out := objset{}
	for o := range s {
		if o.k == oSite {
			out.add(freshObj)
		} else {
			out.add(o)
		}
	}
	return out
}

func invKey(args []argRoots) string {
	var sb strings.Builder
	for _, a := range args {
		for _, l := range a.lv {
			fmt.Fprintf(&sb, "%v|", l.sorted())
		}
		sb.WriteString(";")
	}
	return sb.String()
}

func (w *weState) addInv(fi *fnInfo, k int, args []argRoots) {
	c := make([]argRoots, len(args))
	for i, a := range args {
		for d, l := range a.lv {
			c[i].lv[d] = collapse(l)
		}
	}
	key := invKey(c)
	if fi.cbInv[k] == nil {
		fi.cbInv[k] = map[string][]argRoots{}
	}
	if _, ok := fi.cbInv[k][key]; !ok {
		fi.cbInv[k][key] = c
		w.change = true
	}
}

// the arguments of an invocation recorded in the callee's frame, seen from the call site in fi
func (w *weState) substInv(fi *fnInfo, ins ssa.Instruction, inv []argRoots, args []argRoots) []argRoots {
	site := w.site(fi, ins, "cb")
	out := make([]argRoots, len(inv))
	for i, a := range inv {
		for d, l := range a.lv {
			out[i].lv[d] = objset{}
			for o := range l {
				out[i].lv[d].addAll(w.subst(fi, o, args, site))
			}
		}
	}
	return out
}

// a function literal (or function) handed directly to a simple function parameter k of g: it runs with the
// arguments g (or whoever g hands it on to) calls that parameter with
func (w *weState) bindCallback(fi *fnInfo, ins ssa.Instruction, g *fnInfo, k int, fnv ssa.Value, args []argRoots) {
	var f *ssa.Function
	var bindings []ssa.Value
	switch x := stripCT(fnv).(type) {
	case *ssa.MakeClosure:
		f, _ = x.Fn.(*ssa.Function)
		bindings = x.Bindings
	case *ssa.Function:
		f = x
	}
	if f == nil || !w.ours(f) {
		return
	}
	ci := w.info(f)
	keys := make([]string, 0, len(g.cbInv[k]))
	for key := range g.cbInv[k] {
		keys = append(keys, key)
	}
	sort.Strings(keys)
	for _, key := range keys {
		inv := w.substInv(fi, ins, g.cbInv[k][key], args)
		full := make([]argRoots, ci.np+2*ci.nfv)
		for i := 0; i < ci.np && i < len(inv); i++ {
			full[i] = inv[i]
		}
		for j, b := range bindings {
			if ci.np+2*j+1 < len(full) {
				full[ci.np+2*j], full[ci.np+2*j+1] = w.captured(fi, w.valPts(fi, b))
			}
		}
		w.applySummary(fi, ins, ci, full, objset{})
		if w.final {
			fi.calls = append(fi.calls, callRec{pos: ins.Pos(), how: "HowMake", callee: calleeRec{kind: "fun", fns: []*fnInfo{ci}}, args: full})
		}
	}
}

// every use of the function value v (a literal just made, or a function used as a value) is a direct call of it
// or hands it to a simple function parameter of a function of the package: then bindCallback describes all its runs
func (w *weState) preciseUses(fi *fnInfo, v ssa.Value) bool {
	var fw []cbForward
	if !w.cbUses(fi, v, &fw) {
		return false
	}
	for _, f := range fw {
		if !f.h.cbSimple[f.j] {
			return false
		}
	}
	return true
}

// a function literal is made / a function is used as a value: whoever runs it may hand it memory reachable from
// our parameters; what it captures is bound now
func (w *weState) makeFunc(fi *fnInfo, ins ssa.Instruction, f *ssa.Function, bindings []ssa.Value) {
	if !w.ours(f) {
		return
	}
	ci := w.info(f)
	args := make([]argRoots, ci.np+2*ci.nfv)
	all := w.allParamRoots(fi)
	for i, p := range ci.fn.Params {
		if hasRefs(p.Type()) {
			args[i] = sameAll(all)
		}
	}
	for j, b := range bindings {
		if ci.np+2*j+1 < len(args) {
			args[ci.np+2*j], args[ci.np+2*j+1] = w.captured(fi, w.valPts(fi, b))
		}
	}
	w.applySummary(fi, ins, ci, args, objset{})
	if w.final {
		pos := ins.Pos()
		if pos == token.NoPos {
			pos = f.Pos()
		}
		fi.calls = append(fi.calls, callRec{pos: pos, how: "HowMake", callee: calleeRec{kind: "fun", fns: []*fnInfo{ci}}, args: args})
	}
}

// the functions a value is known to be (nil: not known)
func (w *weState) fsetOf(fi *fnInfo, v ssa.Value) map[*ssa.Function]bool {
	switch x := v.(type) {
	case *ssa.Function:
		return map[*ssa.Function]bool{x: true}
	case *ssa.MakeClosure:
		if f, ok := x.Fn.(*ssa.Function); ok {
			return map[*ssa.Function]bool{f: true}
		}
	}
	return fi.fsets[v]
}

func (w *weState) addFset(fi *fnInfo, v ssa.Value, s map[*ssa.Function]bool) {
	if len(s) == 0 {
		return
	}
	cur := fi.fsets[v]
	if cur == nil {
		cur = map[*ssa.Function]bool{}
		fi.fsets[v] = cur
	}
	for f := range s {
		if !cur[f] {
			cur[f] = true
			w.change = true
		}
	}
}

func (w *weState) argOf(fi *fnInfo, v ssa.Value) argRoots {
	return w.levels(fi, w.valPts(fi, v))
}

func (w *weState) call(fi *fnInfo, ins ssa.Instruction, cc *ssa.CallCommon, how string, result ssa.Value) {
	res := objset{}
	pos := ins.Pos()
	if pos == token.NoPos {
		pos = cc.Pos()
	}
	argPts := func(v ssa.Value) argRoots { return w.argOf(fi, v) }

	if b, ok := cc.Value.(*ssa.Builtin); ok {
		switch b.Name() {
		case "append":
			s := w.valPts(fi, cc.Args[0])
			var el objset
			if len(cc.Args) > 1 && elemHasRefs(cc.Args[1].Type()) {
				el = w.load(fi, w.valPts(fi, cc.Args[1]))
			}
			site := w.site(fi, ins, "")
			res.addAll(s)
			res.add(site)
			in := objset{}
			in.addAll(w.load(fi, s))
			in.addAll(el)
			w.storeInto(fi, res, in)
			w.recordWrite(fi, pos, "WAppend", s, el)
		case "copy":
			d := w.valPts(fi, cc.Args[0])
			var el objset
			if elemHasRefs(cc.Args[1].Type()) {
				el = w.load(fi, w.valPts(fi, cc.Args[1]))
			}
			w.storeInto(fi, d, el)
			w.recordWrite(fi, pos, "WCopy", d, el)
		case "delete":
			w.recordWrite(fi, pos, "WDelete", w.valPts(fi, cc.Args[0]), nil)
		case "clear":
			w.recordWrite(fi, pos, "WClear", w.valPts(fi, cc.Args[0]), nil)
		case "close":
			w.recordWrite(fi, pos, "WSend", w.valPts(fi, cc.Args[0]), nil)
		case "ssa:wrapnilchk":
			res.addAll(w.valPts(fi, cc.Args[0]))
		case "len", "cap", "print", "println", "panic", "recover", "min", "max", "real", "imag", "complex":
		default:
			w.recordWrite(fi, pos, "(WUnrec (B \"builtin "+b.Name()+"\"))", objset{obj{k: oUnknown}: {}}, nil)
		}
		if result != nil {
			w.setPts(fi, result, res)
		}
		return
	}

	var rec callRec
	rec.pos, rec.how = pos, how

	if cc.IsInvoke() {
		impls := w.implementations(cc.Value.Type(), cc.Method)
		args := []argRoots{argPts(cc.Value)}
		for _, a := range cc.Args {
			args = append(args, argPts(a))
		}
		rec.args = args
		it := types.TypeString(cc.Value.Type(), func(p *types.Package) string {
			if p == w.pkg.Pkg {
				return ""
			}
			return p.Path()
		})
		rec.callee = calleeRec{kind: "iface", fns: impls, name: it + "." + cc.Method.Name()}
		for _, ci := range impls {
			w.applySummary(fi, ins, ci, args, res)
		}
		if len(impls) == 0 {
			// an interface of another package without implementations here (error, io.Writer ...): like an
			// unlisted external function
			site := w.site(fi, ins, "")
			all := objset{}
			for _, a := range args {
				all.addAll(a.all())
			}
			res.addAll(all)
			res.add(site)
			w.storeInto(fi, objset{site: {}}, all)
			w.storeInto(fi, all, all)
		}
	} else if sc := cc.StaticCallee(); sc != nil && w.ours(sc) {
		ci := w.info(sc)
		args := make([]argRoots, 0, ci.np+2*ci.nfv)
		for _, a := range cc.Args {
			args = append(args, argPts(a))
		}
		if mc, ok := cc.Value.(*ssa.MakeClosure); ok {
			for _, b := range mc.Bindings {
				c, v := w.captured(fi, w.valPts(fi, b))
				args = append(args, c, v)
			}
		}
		rec.args = args
		rec.callee = calleeRec{kind: "fun", fns: []*fnInfo{ci}}
		w.applySummary(fi, ins, ci, args, res)
		if result != nil {
			w.addFset(fi, result, ci.retFns)
		}
		if _, isClosure := cc.Value.(*ssa.MakeClosure); !isClosure {
			for j, a := range cc.Args {
				if !ci.cbSimple[j] {
					continue
				}
				if k := paramIndex(fi, a); k >= 0 && fi.cbSimple[k] {
					// our own simple function parameter handed on: what the callee calls it with, we call it with
					for _, inv := range ci.cbInv[j] {
						w.addInv(fi, k, w.substInv(fi, ins, inv, args))
					}
					continue
				}
				switch stripCT(a).(type) {
				case *ssa.MakeClosure, *ssa.Function:
					w.bindCallback(fi, ins, ci, j, a, args)
				}
			}
		}
	} else if sc != nil {
		name := w.extName(sc)
		var args []argRoots
		for _, a := range cc.Args {
			args = append(args, argPts(a))
		}
		spec, listed := lookupExt(name, len(args))
		rec.args = args
		rec.callee = calleeRec{kind: "ext", name: name, mask: spec.writes, smask: spec.shallow, listed: listed}
		all := objset{}
		for _, a := range args {
			all.addAll(a.all())
		}
		site := w.site(fi, ins, "")
		if hasRefs(sc.Signature.Results()) {
			res.add(site)
			if !spec.fresh {
				res.addAll(all)
				w.storeInto(fi, objset{site: {}}, all)
			}
		}
		if spec.retains {
			for _, i := range spec.writes {
				if i < len(args) {
					w.storeInto(fi, args[i].all(), all)
					for t := range args[i].all() {
						if t.k == oSite {
							continue
						}
						for v := range all {
							w.addStore(fi, t, v)
						}
					}
				}
			}
		}
		// function values handed to an external function (sort.Slice's less ...) are handled by makeFunc
	} else {
		// a call through a function value
		via := w.valPts(fi, cc.Value)
		var args []argRoots
		for _, a := range cc.Args {
			args = append(args, argPts(a))
		}
		rec.args = args
		kind := "dynamic"
		var gname string
		onlyParams, onlyGlobals := len(via) > 0, len(via) > 0
		for o := range via {
			if o.k != oParam {
				onlyParams = false
			}
			if o.k != oGlobal {
				onlyGlobals = false
			} else {
				gname = o.g
			}
		}
		if k := paramIndex(fi, cc.Value); k >= 0 && fi.cbSimple[k] {
			w.addInv(fi, k, args)
		}
		fs := w.fsetOf(fi, cc.Value)
		switch {
		case len(fs) > 0 && w.allOurs(fs):
			kind = "known"
		case onlyParams:
			kind = "callback"
		case onlyGlobals && len(via) == 1:
			kind = "globalfn"
		}
		rec.callee = calleeRec{kind: kind, name: gname, via: via}
		if kind == "known" {
			// a function literal that an in-package function returned: its captured variables were bound where it
			// was made; from here they are anything the function value reaches
			capt := sameAll(w.reach(fi, via))
			var targets []*ssa.Function
			for f := range fs {
				targets = append(targets, f)
			}
			sort.Slice(targets, func(i, j int) bool { return targets[i].String() < targets[j].String() })
			for _, f := range targets {
				ci := w.info(f)
				full := append([]argRoots{}, args...)
				for len(full) < ci.np {
					full = append(full, argRoots{})
				}
				for j := 0; j < 2*ci.nfv; j++ {
					full = append(full, capt)
				}
				w.applySummary(fi, ins, ci, full, res)
				if w.final {
					fi.calls = append(fi.calls, callRec{pos: pos, how: how, callee: calleeRec{kind: "fun", fns: []*fnInfo{ci}}, args: full})
				}
			}
			if result != nil {
				w.setPts(fi, result, res)
			}
			return
		}
		if kind == "globalfn" {
			if f, ok := w.ginit[gname]; ok && w.ours(f) {
				ci := w.info(f)
				rec.callee.fns = []*fnInfo{ci}
				w.applySummary(fi, ins, ci, args, res)
			}
		}
		// result of an unknown function: may alias anything it was given, or be anything
		all := objset{}
		for _, a := range args {
			all.addAll(a.all())
		}
		site := w.site(fi, ins, "")
		res.add(site)
		res.addAll(all)
		w.storeInto(fi, objset{site: {}}, all)
		w.storeInto(fi, all, all)
		if kind == "dynamic" {
			res.add(obj{k: oUnknown})
		}
	}
	if result != nil {
		w.setPts(fi, result, res)
	}
	if w.final {
		fi.calls = append(fi.calls, rec)
	}
}

// ---------------------------------------------------------------- one sweep over a function

func (w *weState) sweep(fi *fnInfo) {
	for _, b := range fi.fn.Blocks {
		for _, ins := range b.Instrs {
			// functions used as values
			for _, op := range ins.Operands(nil) {
				if op == nil || *op == nil {
					continue
				}
				if _, isMk := ins.(*ssa.MakeClosure); isMk {
					continue // handled below, with its bindings
				}
				if f, ok := (*op).(*ssa.Function); ok {
					if c, isCall := ins.(ssa.CallInstruction); isCall && !c.Common().IsInvoke() {
						if c.Common().Value == f {
							continue
						}
						if sc := c.Common().StaticCallee(); sc != nil && w.ours(sc) {
							h, all := w.info(sc), true
							for j, a := range c.Common().Args {
								if a == ssa.Value(f) && !h.cbSimple[j] {
									all = false
								}
							}
							if _, isClosure := c.Common().Value.(*ssa.MakeClosure); all && !isClosure {
								continue // bound precisely at the call (bindCallback)
							}
						}
					}
					w.makeFunc(fi, ins, f, nil)
				}
			}
			switch x := ins.(type) {
			case *ssa.Alloc:
				w.setPts(fi, x, objset{w.site(fi, x, ""): {}})
			case *ssa.MakeSlice:
				w.setPts(fi, x, objset{w.site(fi, x, ""): {}})
			case *ssa.MakeMap:
				w.setPts(fi, x, objset{w.site(fi, x, ""): {}})
			case *ssa.MakeChan:
				w.setPts(fi, x, objset{w.site(fi, x, ""): {}})
			case *ssa.MakeClosure:
				s := w.site(fi, x, "")
				in := objset{}
				for _, b := range x.Bindings {
					in.addAll(w.valPts(fi, b))
				}
				w.storeInto(fi, objset{s: {}}, in)
				w.setPts(fi, x, objset{s: {}})
				if f, ok := x.Fn.(*ssa.Function); ok && !w.preciseUses(fi, x) {
					w.makeFunc(fi, x, f, x.Bindings)
				}
			case *ssa.MakeInterface:
				w.setPts(fi, x, w.valPts(fi, x.X))
			case *ssa.FieldAddr:
				w.setPts(fi, x, w.valPts(fi, x.X))
			case *ssa.IndexAddr:
				w.setPts(fi, x, w.valPts(fi, x.X))
			case *ssa.Field:
				w.setPts(fi, x, w.valPts(fi, x.X))
			case *ssa.Index:
				w.setPts(fi, x, w.valPts(fi, x.X))
			case *ssa.Lookup:
				w.setPts(fi, x, w.load(fi, w.valPts(fi, x.X)))
			case *ssa.UnOp:
				if x.Op == token.MUL || x.Op == token.ARROW {
					w.setPts(fi, x, w.load(fi, w.valPts(fi, x.X)))
				}
			case *ssa.Slice:
				w.setPts(fi, x, w.valPts(fi, x.X))
			case *ssa.Phi:
				for _, e := range x.Edges {
					w.setPts(fi, x, w.valPts(fi, e))
					w.addFset(fi, x, w.fsetOf(fi, e))
				}
			case *ssa.Select:
				w.setPts(fi, x, objset{obj{k: oUnknown}: {}})
				w.recordWrite(fi, x.Pos(), "(WUnrec (B \"select\"))", objset{obj{k: oUnknown}: {}}, nil)
			case *ssa.Extract:
				w.setPts(fi, x, w.valPts(fi, x.Tuple))
				if hasFuncType(x.Type()) {
					w.addFset(fi, x, w.fsetOf(fi, x.Tuple))
				}
			case *ssa.TypeAssert:
				w.setPts(fi, x, w.valPts(fi, x.X))
			case *ssa.ChangeType:
				w.setPts(fi, x, w.valPts(fi, x.X))
				w.addFset(fi, x, w.fsetOf(fi, x.X))
			case *ssa.ChangeInterface:
				w.setPts(fi, x, w.valPts(fi, x.X))
			case *ssa.SliceToArrayPointer:
				w.setPts(fi, x, w.valPts(fi, x.X))
			case *ssa.MultiConvert:
				w.setPts(fi, x, w.valPts(fi, x.X))
			case *ssa.Convert:
				src := w.valPts(fi, x.X)
				if hasRefs(x.Type()) {
					if len(src) > 0 {
						w.setPts(fi, x, src)
					} else if bt, ok := types.Unalias(x.X.Type()).Underlying().(*types.Basic); ok {
						_, isConst := x.X.(*ssa.Const)
						switch {
						case bt.Info()&types.IsString != 0:
							w.setPts(fi, x, objset{w.site(fi, x, ""): {}}) // []byte(s), []rune(s): a copy
						case bt.Info()&types.IsInteger != 0 && !isConst:
							w.setPts(fi, x, objset{obj{k: oUnknown}: {}}) // unsafe.Pointer(uintptr)
						}
					}
				}
			case *ssa.Range:
				w.setPts(fi, x, w.valPts(fi, x.X))
			case *ssa.Next:
				w.setPts(fi, x, w.load(fi, w.valPts(fi, x.Iter)))
			case *ssa.BinOp:
			case *ssa.Call:
				w.call(fi, x, x.Common(), "HowCall", x)
			case *ssa.Defer:
				w.call(fi, x, x.Common(), "HowDefer", nil)
			case *ssa.Go:
				w.call(fi, x, x.Common(), "HowGo", nil)
			case *ssa.Store:
				tg := w.valPts(fi, x.Addr)
				vl := w.valPts(fi, x.Val)
				w.storeInto(fi, tg, vl)
				kind := "WDeref"
				switch a := x.Addr.(type) {
				case *ssa.FieldAddr:
					kind = "WField"
					_ = a
				case *ssa.IndexAddr:
					kind = "WIndex"
				case *ssa.Alloc:
					kind = "WVar"
				case *ssa.Global:
					kind = "WVar"
				}
				w.recordWrite(fi, x.Pos(), kind, tg, vl)
			case *ssa.MapUpdate:
				tg := w.valPts(fi, x.Map)
				vl := objset{}
				vl.addAll(w.valPts(fi, x.Key))
				vl.addAll(w.valPts(fi, x.Value))
				w.storeInto(fi, tg, vl)
				w.recordWrite(fi, x.Pos(), "WMap", tg, vl)
			case *ssa.Send:
				tg := w.valPts(fi, x.Chan)
				vl := w.valPts(fi, x.X)
				w.storeInto(fi, tg, vl)
				w.recordWrite(fi, x.Pos(), "WSend", tg, vl)
			case *ssa.Return:
				for _, r := range x.Results {
					for f := range w.fsetOf(fi, r) {
						if !fi.retFns[f] {
							fi.retFns[f] = true
							w.change = true
						}
					}
					for o := range w.valPts(fi, r) {
						if o.k == oSite && fi.esc.add(o) {
							w.change = true
						}
						if fi.retDirect.add(w.export(fi, o)) {
							w.change = true
						}
					}
				}
			case *ssa.If, *ssa.Jump, *ssa.Panic, *ssa.RunDefers, *ssa.DebugRef:
			default:
				w.recordWrite(fi, ins.Pos(), fmt.Sprintf("(WUnrec (B \"%T\"))", ins), objset{obj{k: oUnknown}: {}}, nil)
			}
		}
	}
	w.exportEscaping(fi)
}

// ---------------------------------------------------------------- driver and emission

func (t *T) genWriteEffects() string {
	var sb strings.Builder
	sb.WriteString("From AP.Model Require Import Prelude WriteEff.\nLocal Open Scope N_scope.\n\n")
	sb.WriteString("(* ---- the package *)\n")
	sb.WriteString(weAnalyse(t.pkg).emit("we"))
	// the fixture: one function per shape of write, analysed with the same code (wefixture.go)
	sb.WriteString("\n(* ---- the translator's fixture (translator/wefixture.go) *)\n")
	if fx, err := loadFixture(); err != nil {
		fmt.Fprintf(&sb, "(* the fixture did not load: %s *)\n", strings.ReplaceAll(strings.ReplaceAll(err.Error(), "(*", "( *"), "*)", "* )"))
		sb.WriteString("Definition fx_files : list bytes := [].\nDefinition fx_globals : list bytes := [].\nDefinition fx_externals : list bytes := [].\nDefinition fx_table : list fn := [].\n")
	} else {
		sb.WriteString(weAnalyse(fx).emit("fx"))
	}
	return sb.String()
}

func weAnalyse(pkg *packages.Package) *weState {
	prog, pkgs := ssautil.Packages([]*packages.Package{pkg}, ssa.BuilderMode(0))
	prog.Build()
	w := &weState{fset: pkg.Fset, prog: prog, pkg: pkgs[0], infos: map[*ssa.Function]*fnInfo{}, ginit: map[string]*ssa.Function{}}
	w.discover()
	w.findGlobalInits()
	w.computeCbSimple()
	for round := 0; round < 200; round++ {
		w.change = false
		n := len(w.order)
		for i := 0; i < len(w.order); i++ {
			w.sweep(w.order[i])
		}
		if len(w.order) != n {
			w.change = true
		}
		if os.Getenv("WE_TRACE") != "" {
			fmt.Fprintf(os.Stderr, "round %d: %d functions, change=%v\n", round, len(w.order), w.change)
		}
		if !w.change {
			break
		}
	}
	sort.SliceStable(w.order, func(i, j int) bool { return w.order[i].key() < w.order[j].key() })
	for i, fi := range w.order {
		fi.idx = i
	}
	w.final = true
	for _, fi := range w.order {
		w.sweep(fi)
	}
	if d := os.Getenv("WE_DUMP"); d != "" {
		w.dump(d)
	}
	return w
}

// package-level `var F = someFunction` / `var F T = someFunction`
func (w *weState) findGlobalInits() {
	init := w.pkg.Func("init")
	if init == nil {
		return
	}
	for _, b := range init.Blocks {
		for _, ins := range b.Instrs {
			st, ok := ins.(*ssa.Store)
			if !ok {
				continue
			}
			g, ok := st.Addr.(*ssa.Global)
			if !ok {
				continue
			}
			v := st.Val
			if ct, ok := v.(*ssa.ChangeType); ok {
				v = ct.X
			}
			if f, ok := v.(*ssa.Function); ok {
				w.ginit[g.RelString(w.pkg.Pkg)] = f
			}
		}
	}
}

func (w *weState) emit(prefix string) string {
	var sb strings.Builder
	// tables of names
	files := map[string]int{}
	var fileNames []string
	fileOf := func(p token.Pos) (int, int) {
		if p == token.NoPos {
			return 0, 0
		}
		ps := w.fset.Position(p)
		b := filepath.Base(ps.Filename)
		if _, ok := files[b]; !ok {
			files[b] = len(fileNames) + 1
			fileNames = append(fileNames, b)
		}
		return files[b], ps.Line
	}
	globals := map[string]int{}
	var globalNames []string
	exts := map[string]int{}
	var extNames []string
	rootS := func(s objset) string {
		seenLocal := false
		var parts []string
		for _, o := range s.sorted() {
			switch o.k {
			case oSite:
				if !seenLocal {
					seenLocal = true
					parts = append(parts, "RLocal")
				}
			case oParam:
				parts = append(parts, fmt.Sprintf("RP %d %d", o.i, o.d))
			case oGlobal:
				if _, ok := globals[o.g]; !ok {
					globals[o.g] = len(globalNames)
					globalNames = append(globalNames, o.g)
				}
				parts = append(parts, fmt.Sprintf("RGlobal %d", globals[o.g]))
			case oUnknown:
				parts = append(parts, "RUnknown")
			}
		}
		return "[" + strings.Join(parts, "; ") + "]"
	}
	natList := func(l []int) string {
		var p []string
		for _, i := range l {
			p = append(p, fmt.Sprint(i))
		}
		return "[" + strings.Join(p, "; ") + "]"
	}
	fnIdx := func(l []*fnInfo) string {
		var p []int
		for _, f := range l {
			p = append(p, f.idx)
		}
		sort.Ints(p)
		return natList(p)
	}
	var rows []string
	nW, nC := 0, 0
	for _, fi := range w.order {
		// writes, merged by (line, kind, roots)
		seen := map[string]bool{}
		var ws []string
		for _, wr := range fi.writes {
			f, l := fileOf(wr.pos)
			s := fmt.Sprintf("mkW %d %d %s %s", f, l, wr.kind, rootS(wr.target))
			if !seen[s] {
				seen[s] = true
				ws = append(ws, s)
			}
		}
		var cs []string
		seen = map[string]bool{}
		for _, c := range fi.calls {
			f, l := fileOf(c.pos)
			var cal string
			switch c.callee.kind {
			case "fun":
				cal = fmt.Sprintf("(CFun %d)", c.callee.fns[0].idx)
			case "iface":
				cal = fmt.Sprintf("(CIface %s %s)", coqStr(c.callee.name), fnIdx(c.callee.fns))
			case "ext":
				if _, ok := exts[c.callee.name]; !ok {
					exts[c.callee.name] = len(extNames)
					extNames = append(extNames, c.callee.name)
				}
				cal = fmt.Sprintf("(CExt %d %s %s)", exts[c.callee.name], natList(c.callee.mask), natList(c.callee.smask))
			case "callback":
				cal = fmt.Sprintf("(CCallback %s)", rootS(c.callee.via))
			case "globalfn":
				if _, ok := globals[c.callee.name]; !ok {
					globals[c.callee.name] = len(globalNames)
					globalNames = append(globalNames, c.callee.name)
				}
				cal = fmt.Sprintf("(CGlobalFn %d %s)", globals[c.callee.name], fnIdx(c.callee.fns))
			default:
				cal = "CDynamic"
			}
			var as []string
			for _, a := range c.args {
				if a.empty() {
					as = append(as, "noarg")
				} else {
					var ls []string
					for _, l := range a.lv {
						ls = append(ls, rootS(l))
					}
					as = append(as, "["+strings.Join(ls, "; ")+"]")
				}
			}
			s := fmt.Sprintf("mkC %d %d %s %s [%s]", f, l, c.how, cal, strings.Join(as, "; "))
			if !seen[s] {
				seen[s] = true
				cs = append(cs, s)
			}
		}
		nW += len(ws)
		nC += len(cs)
		var ps []string
		for _, p := range fi.fn.Params {
			ps = append(ps, fmt.Sprintf("(%s, %s)", coqStr(p.Name()), coqStr(strings.ReplaceAll(types.TypeString(p.Type(), func(pk *types.Package) string {
				if pk == w.pkg.Pkg {
					return ""
				}
				return pk.Name()
			}), "(*", "( *"))))
		}
		for _, p := range fi.fn.FreeVars {
			ps = append(ps, fmt.Sprintf("(%s, %s)", coqStr("captured &"+p.Name()), coqStr("")))
			ps = append(ps, fmt.Sprintf("(%s, %s)", coqStr("captured "+p.Name()), coqStr("")))
		}
		kind := "FDecl"
		if fi.fn.Parent() != nil {
			kind = "FLit"
		} else if fi.fn.Synthetic != "" {
			kind = "FSynth"
		}
		exported := fi.fn.Object() != nil && fi.fn.Object().Exported() && kind == "FDecl"
		f, l := fileOf(fi.fn.Pos())
		rows = append(rows, fmt.Sprintf("mkF %s %s %s %s %s %d %d\n    [%s]\n    [%s]\n    [%s]",
			coqStr(fi.name), coqStr(fi.recv), cboolS(fi.ptrRecv), cboolS(exported), kind, f, l,
			strings.Join(ps, "; "), strings.Join(ws, ";\n     "), strings.Join(cs, ";\n     ")))
	}
	q := func(l []string) string {
		o := make([]string, len(l))
		for i, s := range l {
			o[i] = coqStr(s)
		}
		return strings.Join(o, ";\n  ")
	}
	fmt.Fprintf(&sb, "Definition %s_files : list bytes := [\n  %s].\n\n", prefix, q(fileNames))
	fmt.Fprintf(&sb, "Definition %s_globals : list bytes := [\n  %s].\n\n", prefix, q(globalNames))
	fmt.Fprintf(&sb, "Definition %s_externals : list bytes := [\n  %s].\n\n", prefix, q(extNames))
	fmt.Fprintf(&sb, "(* %d functions, %d write entries, %d call entries *)\n", len(rows), nW, nC)
	fmt.Fprintf(&sb, "Definition %s_table : list fn := [\n  %s].\n", prefix, strings.Join(rows, ";\n  "))
	return sb.String()
}

// debugging aid: WE_DUMP=<function name> prints the points-to sets of one function
func (w *weState) dump(name string) {
	for _, fi := range w.order {
		if fi.key() != name && fi.name != name {
			continue
		}
		fmt.Fprintf(os.Stderr, "== %s (idx %d)\n  retDirect %v\n  stores %v\n", fi.key(), fi.idx, fi.retDirect.sorted(), fi.stores)
		for s, c := range fi.cont {
			fmt.Fprintf(os.Stderr, "  site %d: %v\n", s, c.sorted())
		}
		for _, b := range fi.fn.Blocks {
			for _, ins := range b.Instrs {
				if v, ok := ins.(ssa.Value); ok {
					fmt.Fprintf(os.Stderr, "  %s = %s   :: %v\n", v.Name(), ins.String(), fi.pts[v].sorted())
				} else {
					fmt.Fprintf(os.Stderr, "  %s\n", ins.String())
				}
			}
		}
	}
}
